"""C05 -- collection deltas coherent with values.

TSSSlotStorage (ts_data_slot_ops.cpp) over the keyed slot view SL:
  constructed[s], live[s] (pending-erase = constructed and not live), key[s], added[s], removed[s], delta_time,
  ghost base[s] = live set when the current delta window opened.
SLInv:  added & removed disjoint;  added subset live;  removed disjoint from live;  removed subset base;
        added disjoint from base;  live = (base \\ removed) | added;  removed subset constructed;  live subset constructed;
        KeyInv: at most one constructed slot per key.
The contract of KeySlotStore (insert / find_slot / remove_slot / erase_pending) is assumed here (second layer).
SizeTSWindowStorage / TSWindowStorageCore (ts_data_window_ops.cpp): ring buffer against the sequence view.
"""
import z3

from cxxvc.kernel import Kernel, LoopSpec, Lemma
from cxxvc.interp import Obj, Ptr, Loc, ArrLoc, Opt, Gap, MAX_DT, ExcVal, VOID, ThrowEx, DEFAULT_ARG
from cxxvc import extract, models

TU = "src/hgraph/types/metadata/ts_data_slot_ops.cpp"
I_ = z3.IntSort()
B_ = z3.BoolSort()
qs, qr = z3.Ints("qs qr")
NPOS = z3.Int("NPOS")  # KeySlotStore::npos / TS_DATA_NO_CHILD_ID / bitset npos: size_t max


class BitSet(Obj):
    """sul::dynamic_bitset<>: bits: Array(Int -> Bool), size"""
    cls = "dynamic_bitset"

    def __init__(self, ctx, name):
        Obj.__init__(self, name=name)
        ctx.store[(self.oid, "bits")] = z3.Array(name + "_bits0", I_, B_)
        ctx.store[(self.oid, "size")] = z3.Int(name + "_size0")

    def bits(self, ctx):
        return ctx.store[(self.oid, "bits")]

    def size(self, ctx):
        return ctx.store[(self.oid, "size")]

    def m_size(self, I, args, n):
        return self.size(I.ctx)

    def m_test(self, I, args, n):
        ctx = I.ctx
        i = ctx.rv(args[0])
        ctx.oblige("bitset.test-in-range@%s" % extract.line_of(n), z3.And(i >= 0, i < self.size(ctx)), kind="bounds")
        return self.bits(ctx)[i]

    def m_set(self, I, args, n):
        ctx = I.ctx
        i = ctx.rv(args[0])
        ctx.oblige("bitset.set-in-range@%s" % extract.line_of(n), z3.And(i >= 0, i < self.size(ctx)), kind="bounds")
        ctx.write(self.loc("bits"), z3.Store(self.bits(ctx), i, True))
        return VOID

    def m_reset(self, I, args, n):
        ctx = I.ctx
        if not args:
            ctx.write(self.loc("bits"), z3.K(I_, z3.BoolVal(False)))
            return VOID
        i = ctx.rv(args[0])
        ctx.oblige("bitset.reset-in-range@%s" % extract.line_of(n), z3.And(i >= 0, i < self.size(ctx)), kind="bounds")
        ctx.write(self.loc("bits"), z3.Store(self.bits(ctx), i, False))
        return VOID

    def m_resize(self, I, args, n):
        """resize(n): keeps bits below min(old, n); new bits are false"""
        ctx = I.ctx
        nn = ctx.rv(args[0])
        old, osz = self.bits(ctx), self.size(ctx)
        nb = ctx.fresh(self.name + "_bits", old.sort())
        ctx.assume(z3.ForAll([qs], nb[qs] == z3.And(old[qs], qs < osz, qs < nn)))
        ctx.write(self.loc("bits"), nb)
        ctx.write(self.loc("size"), nn)
        return VOID


class KeyStore(Obj):
    """KeySlotStore through its (assumed) contract"""
    cls = "KeySlotStore"

    def __init__(self, k):
        Obj.__init__(self, name="keys")
        self.k = k

    def g(self, ctx, nm):
        return ctx.store[(self.k.g.oid, nm)]

    def w(self, I, nm, v):
        I.ctx.write(Loc((self.k.g.oid, nm)), v)

    def m_slot_capacity(self, I, args, n):
        return self.g(I.ctx, "cap")

    def m_slot_live(self, I, args, n):
        ctx = I.ctx
        s = ctx.rv(args[0])
        return z3.And(s >= 0, s < self.g(ctx, "cap"), self.g(ctx, "live")[s])

    def m_find_slot(self, I, args, n):
        ctx = I.ctx
        key = ctx.rv(args[0]).kid
        r = ctx.fresh("found_slot")
        live, keyof, cap = self.g(ctx, "live"), self.g(ctx, "key"), self.g(ctx, "cap")
        ctx.assume(z3.Or(z3.And(r == NPOS, z3.ForAll([qs], z3.Implies(z3.And(qs >= 0, qs < cap, live[qs]), keyof[qs] != key))),
                         z3.And(r >= 0, r < cap, live[r], keyof[r] == key)))
        return r

    def m_remove_slot(self, I, args, n):
        ctx = I.ctx
        s = ctx.rv(args[0])
        live = self.g(ctx, "live")
        was = z3.And(s >= 0, s < self.g(ctx, "cap"), live[s])
        self.w(I, "live", z3.If(was, z3.Store(live, s, False), live))
        return was

    def m_erase_pending(self, I, args, n):
        """frees every pending-erase slot; ghost: a new delta window opens here, base := live"""
        ctx = I.ctx
        self.w(I, "constructed", self.g(ctx, "live"))
        self.w(I, "base", self.g(ctx, "live"))
        self.w(I, "rolls", self.g(ctx, "rolls") + 1)
        return VOID

    def insert(self, I, key):
        ctx = I.ctx
        live, con, keyof, cap = self.g(ctx, "live"), self.g(ctx, "constructed"), self.g(ctx, "key"), self.g(ctx, "cap")
        s = ctx.fresh("insert_slot")
        cap1 = ctx.fresh("cap_after_insert")
        ctx.assume(z3.And(cap1 >= cap, s >= 0, s < cap1))
        case = ctx.choose(3, "KeySlotStore::insert outcome")
        res = Obj("InsertResult", "insert_result")
        if case == 0:      # key already live
            ctx.assume(z3.And(s < cap, live[s], keyof[s] == key, cap1 == cap))
            ins, cons = z3.BoolVal(False), z3.BoolVal(False)
        elif case == 1:    # pending-erase slot of the same key is resurrected
            ctx.assume(z3.And(s < cap, con[s], z3.Not(live[s]), keyof[s] == key, cap1 == cap,
                              z3.ForAll([qs], z3.Implies(z3.And(qs >= 0, qs < cap, live[qs]), keyof[qs] != key))))
            self.w(I, "live", z3.Store(live, s, True))
            ins, cons = z3.BoolVal(True), z3.BoolVal(False)
        else:              # a free slot is constructed (capacity may grow)
            ctx.assume(z3.And(z3.Not(con[s]), z3.ForAll([qs], z3.Implies(z3.And(qs >= 0, qs < cap, con[qs]), keyof[qs] != key)),
                              z3.ForAll([qs], z3.Implies(qs >= cap, z3.And(z3.Not(con[qs]), z3.Not(live[qs]))))))
            self.w(I, "live", z3.Store(live, s, True))
            self.w(I, "constructed", z3.Store(con, s, True))
            self.w(I, "key", z3.Store(keyof, s, key))
            ins, cons = z3.BoolVal(True), z3.BoolVal(True)
        self.w(I, "cap", cap1)
        ctx.store[(res.oid, "slot")] = s
        ctx.store[(res.oid, "inserted")] = ins
        ctx.store[(res.oid, "constructed")] = cons
        return res

    def m_insert(self, I, args, n):
        return self.insert(I, I.ctx.rv(args[0]).kid)

    def m_insert_move(self, I, args, n):
        return self.insert(I, self.k.keyid)


class KeyView(Obj):
    cls = "ValueView"

    def __init__(self, kid):
        Obj.__init__(self, name="key_view")
        self.kid = kid


class SlotKernel(Kernel):
    tu = TU
    filter = "TSSSlotStorage"
    cls = "TSSSlotStorage"
    property_ids = ("C05", "C04")
    scope = {"lo": 0, "hi": 3}
    inline = ("prepare_delta", "ensure_delta_capacity", "slot_added", "slot_removed", "validate_mutation_time",
              "mutation_result", "reset_delta")

    def setup(self, I):
        ctx = I.ctx
        th = Obj("TSSSlotStorage", "this_storage")
        self.th = th
        g = Obj("ghost", "slg")
        self.g = g
        self.live0 = z3.Array("live0", I_, B_)
        self.con0 = z3.Array("constructed0", I_, B_)
        self.key0 = z3.Array("key0", I_, I_)
        self.base0 = z3.Array("base0", I_, B_)
        self.cap0 = z3.Int("cap0")
        for nm, v in (("live", self.live0), ("constructed", self.con0), ("key", self.key0), ("base", self.base0),
                      ("cap", self.cap0), ("rolls", z3.IntVal(0))):
            ctx.store[(g.oid, nm)] = v
        self.added = BitSet(ctx, "added")
        self.removed = BitSet(ctx, "removed")
        self.add0, self.rem0 = self.added.bits(ctx), self.removed.bits(ctx)
        ctx.store[(th.oid, "added_")] = self.added
        ctx.store[(th.oid, "removed_")] = self.removed
        ctx.store[(th.oid, "keys_")] = KeyStore(self)
        self.dt0 = z3.Int("delta_time0")
        ctx.store[(th.oid, "delta_time_")] = self.dt0
        self.lmt = z3.Int("tracking_lmt")
        trk = Obj("TSDataTracking", "tracking_")
        ctx.store[(trk.oid, "last_modified_time")] = self.lmt
        ctx.store[(th.oid, "tracking_")] = trk
        ctx.store[(th.oid, "key_binding_")] = Obj("ValueTypeRef", "key_binding_")
        self.t = z3.Int("modified_time")
        self.keyid = z3.Int("key")
        ctx.assume(z3.And(self.t >= 0, self.t <= MAX_DT, self.dt0 >= 0, self.dt0 <= MAX_DT, self.cap0 >= 0, NPOS > self.cap0))
        # representation invariant on entry
        ctx.assume(self.sl_inv(self.live0, self.con0, self.key0, self.base0, self.add0, self.rem0, self.cap0))
        ctx.assume(z3.And(self.added.size(ctx) == self.cap0, self.removed.size(ctx) == self.cap0))
        return th, self.params(I)

    def sl_inv(self, live, con, key, base, add, rem, cap):
        rng = z3.And(qs >= 0, qs < cap)
        return z3.And(
            z3.ForAll([qs], z3.Implies(z3.Not(rng), z3.And(z3.Not(live[qs]), z3.Not(con[qs]), z3.Not(add[qs]),
                                                           z3.Not(rem[qs]), z3.Not(base[qs])))),
            z3.ForAll([qs], z3.Implies(live[qs], con[qs])),
            z3.ForAll([qs], z3.Not(z3.And(add[qs], rem[qs]))),
            z3.ForAll([qs], z3.Implies(add[qs], z3.And(live[qs], z3.Not(base[qs])))),
            z3.ForAll([qs], z3.Implies(rem[qs], z3.And(z3.Not(live[qs]), base[qs], con[qs]))),
            z3.ForAll([qs], live[qs] == z3.Or(z3.And(base[qs], z3.Not(rem[qs])), add[qs])),
            z3.ForAll([qs, qr], z3.Implies(z3.And(con[qs], con[qr], key[qs] == key[qr]), qs == qr)))

    def cur(self, ctx):
        g = self.g
        return (ctx.store[(g.oid, "live")], ctx.store[(g.oid, "constructed")], ctx.store[(g.oid, "key")],
                ctx.store[(g.oid, "base")], self.added.bits(ctx), self.removed.bits(ctx), ctx.store[(g.oid, "cap")])

    def rolled(self):
        """the state after the window roll that a strictly newer time causes (the '1' state of the contract)"""
        roll = self.t > self.dt0
        live1 = self.live0
        con1 = lambda s: z3.If(roll, self.live0[s], self.con0[s])
        base1 = lambda s: z3.If(roll, self.live0[s], self.base0[s])
        add1 = lambda s: z3.If(roll, z3.BoolVal(False), self.add0[s])
        rem1 = lambda s: z3.If(roll, z3.BoolVal(False), self.rem0[s])
        return roll, live1, con1, base1, add1, rem1

    def ctor_handler(self, qt, node):
        if qt.endswith("SlotTSDataMutationResult"):
            def mk(I, args, n):
                a = [I.ctx.rv(x) for x in args]
                if len(a) == 1 and isinstance(a[0], Obj) and a[0].cls == "SlotTSDataMutationResult":
                    return a[0]
                o = Obj("SlotTSDataMutationResult", "mutation_result")
                d = [NPOS, z3.BoolVal(False), z3.BoolVal(False)]
                for i, x in enumerate(a):
                    if x is not DEFAULT_ARG:
                        d[i] = x
                I.ctx.store[(o.oid, "slot")], I.ctx.store[(o.oid, "changed")], I.ctx.store[(o.oid, "constructed")] = d
                return o
            return mk
        return Kernel.ctor_handler(self, qt, node)

    def global_var(self, I, ref, node):
        if ref.get("name") in ("npos", "TS_DATA_NO_CHILD_ID"):
            return NPOS
        return None

    def common_post(self, I, ret):
        ctx = I.ctx
        ctx.oblige("ensures.SLInv[C05 added/removed disjoint, added present, removed absent and previously present, value = "
                   "previous value with the delta applied]", self.sl_inv(*self.cur(ctx)), kind="post-normal")
        ctx.oblige("ensures.delta-capacity-tracks-slot-capacity", z3.And(self.added.size(ctx) == self.cur(ctx)[6],
                                                                        self.removed.size(ctx) == self.cur(ctx)[6]), kind="post-normal")
        ctx.oblige("ensures.window-time=max(old,t)[C04/C05 lazy delta clean-up rolls only on a strictly newer time]",
                   ctx.store[(self.th.oid, "delta_time_")] == z3.If(self.t > self.dt0, self.t, self.dt0), kind="post-normal")
        ctx.oblige("ensures.concrete-time", self.t != 0, kind="post-normal")

    def post_exc(self, I, exc):
        ctx = I.ctx
        ctx.oblige("raises.invalid_argument-iff-MIN_DT", z3.And(z3.BoolVal(exc.cls == "std::invalid_argument"), self.t == 0),
                   kind="post-exceptional")
        live, con, key, base, add, rem, cap = self.cur(ctx)
        ctx.oblige("raises.state-unchanged", z3.And(live == self.live0, con == self.con0, add == self.add0, rem == self.rem0),
                   kind="post-exceptional")


class NPOSFix:
    pass


class InsertKey(SlotKernel):
    name = "ts_data_slot_ops.cpp:TSSSlotStorage::insert_key"
    fn_name = "insert_key"
    title = "TSS insert_key: live' = live + {k}; a removal in the same window is cancelled, else the slot is marked added"

    def params(self, I):
        return {"key": KeyView(self.keyid), "modified_time": self.t}

    def post(self, I, ret):
        ctx = I.ctx
        self.common_post(I, ret)
        live, con, key, base, add, rem, cap = self.cur(ctx)
        roll, live1, con1, base1, add1, rem1 = self.rolled()
        slot, changed = ctx.store[(ret.oid, "slot")], ctx.store[(ret.oid, "changed")]
        was_live = z3.Exists([qs], z3.And(qs >= 0, qs < self.cap0, self.live0[qs], self.key0[qs] == self.keyid))
        ctx.oblige("ensures.changed<=>key-was-not-live", changed == z3.Not(was_live), kind="post-normal")
        ctx.oblige("ensures.key-live-afterwards-at-the-returned-slot[C05 every added element is present afterwards]",
                   z3.And(slot >= 0, slot < cap, live[slot], key[slot] == self.keyid), kind="post-normal")
        ctx.oblige("ensures.only-that-slot's-membership-changes", z3.ForAll([qs], z3.Implies(qs != slot, live[qs] == self.live0[qs])),
                   kind="post-normal")
        ctx.oblige("ensures.unchanged=>delta-is-the-rolled-delta", z3.Implies(z3.Not(changed), z3.ForAll(
            [qs], z3.And(add[qs] == add1(qs), rem[qs] == rem1(qs)))), kind="post-normal")
        ctx.oblige("ensures.changed=>cancel-a-removal-or-mark-added[C05 mutations that cancel within one cycle leave no trace]",
                   z3.Implies(changed, z3.ForAll([qs], z3.And(
                       rem[qs] == z3.And(rem1(qs), qs != slot),
                       add[qs] == z3.Or(add1(qs), z3.And(qs == slot, z3.Not(rem1(slot))))))), kind="post-normal")


class RemoveKey(SlotKernel):
    name = "ts_data_slot_ops.cpp:TSSSlotStorage::remove_key"
    fn_name = "remove_key"
    title = "TSS remove_key: live' = live - {k}; an addition in the same window is cancelled, else the slot is marked removed"

    def params(self, I):
        return {"key": KeyView(self.keyid), "modified_time": self.t}

    def post(self, I, ret):
        ctx = I.ctx
        self.common_post(I, ret)
        live, con, key, base, add, rem, cap = self.cur(ctx)
        roll, live1, con1, base1, add1, rem1 = self.rolled()
        slot, changed = ctx.store[(ret.oid, "slot")], ctx.store[(ret.oid, "changed")]
        was_live = z3.Exists([qs], z3.And(qs >= 0, qs < self.cap0, self.live0[qs], self.key0[qs] == self.keyid))
        ctx.oblige("ensures.changed<=>key-was-live", changed == was_live, kind="post-normal")
        ctx.oblige("ensures.key-absent-afterwards[C05 every removed element is absent afterwards]",
                   z3.ForAll([qs], z3.Implies(z3.And(qs >= 0, qs < cap, live[qs]), key[qs] != self.keyid)), kind="post-normal")
        ctx.oblige("ensures.changed=>that-slot-left,others-kept", z3.Implies(changed, z3.And(
            slot >= 0, slot < cap, self.live0[slot], self.key0[slot] == self.keyid,
            z3.ForAll([qs], live[qs] == z3.And(self.live0[qs], qs != slot)))), kind="post-normal")
        ctx.oblige("ensures.unchanged=>membership-kept", z3.Implies(z3.Not(changed), live == self.live0), kind="post-normal")
        ctx.oblige("ensures.changed=>cancel-an-addition-or-mark-removed[C05 cancelling mutations leave no trace; removed was present before]",
                   z3.Implies(changed, z3.ForAll([qs], z3.And(
                       add[qs] == z3.And(add1(qs), qs != slot),
                       rem[qs] == z3.Or(rem1(qs), z3.And(qs == slot, z3.Not(add1(slot))))))), kind="post-normal")
        ctx.oblige("ensures.removed-key-stays-readable-this-cycle[C05 logical removal vs physical erase]",
                   z3.Implies(changed, z3.And(con[slot], key[slot] == self.keyid)), kind="post-normal")


class RemoveSlot(RemoveKey):
    name = "ts_data_slot_ops.cpp:TSSSlotStorage::remove_slot"
    fn_name = "remove_slot"
    title = "TSS remove_slot: as remove_key, addressed by slot"

    def params(self, I):
        self.slot_arg = z3.Int("slot_arg")
        I.ctx.assume(self.slot_arg >= 0)
        return {"slot": self.slot_arg, "modified_time": self.t}

    def post(self, I, ret):
        ctx = I.ctx
        self.common_post(I, ret)
        live, con, key, base, add, rem, cap = self.cur(ctx)
        roll, live1, con1, base1, add1, rem1 = self.rolled()
        s = self.slot_arg
        changed = ctx.store[(ret.oid, "changed")]
        was_live = z3.And(s != NPOS, s < self.cap0, self.live0[s])
        ctx.oblige("ensures.changed<=>slot-was-live", changed == was_live, kind="post-normal")
        ctx.oblige("ensures.membership", z3.ForAll([qs], live[qs] == z3.And(self.live0[qs], z3.Not(z3.And(was_live, qs == s)))),
                   kind="post-normal")
        ctx.oblige("ensures.changed=>cancel-an-addition-or-mark-removed[C05]",
                   z3.Implies(changed, z3.ForAll([qs], z3.And(
                       add[qs] == z3.And(add1(qs), qs != s),
                       rem[qs] == z3.Or(rem1(qs), z3.And(qs == s, z3.Not(add1(s))))))), kind="post-normal")


class Touch(SlotKernel):
    name = "ts_data_slot_ops.cpp:TSSSlotStorage::touch"
    fn_name = "touch"
    title = "TSS touch: opens the delta window for t without changing membership"

    def params(self, I):
        return {"modified_time": self.t}

    def post(self, I, ret):
        ctx = I.ctx
        self.common_post(I, ret)
        live, con, key, base, add, rem, cap = self.cur(ctx)
        roll, live1, con1, base1, add1, rem1 = self.rolled()
        ctx.oblige("ensures.membership-unchanged", live == self.live0, kind="post-normal")
        ctx.oblige("ensures.roll-clears-the-delta-and-erases-pending-slots[C04/C05 lazy clean-up]",
                   z3.ForAll([qs], z3.And(add[qs] == add1(qs), rem[qs] == rem1(qs), con[qs] == con1(qs))), kind="post-normal")
        ctx.oblige("ensures.result=not-yet-modified-at-t", ret == (self.lmt != self.t), kind="post-normal")


KERNELS = [InsertKey, RemoveKey, RemoveSlot, Touch]
