"""C06 (node identity / interning) and the wiring-time part of C01 (declared rank-free edges are validated):
graph_wiring.cpp InstanceKey::operator==, Wiring::add_node / add_unique_node, add_rank_dependency,
add_same_cycle_pair, validate_same_cycle_pairs."""
import z3

from cxxvc.kernel import Kernel, LoopSpec, Lemma
from cxxvc.interp import Obj, Ptr, Loc, Opt, Gap, VOID, ExcVal, Closure
from cxxvc import extract, models
from cxxvc.models import Vec, MapKV

TU = "src/hgraph/types/graph_wiring.cpp"
I_ = z3.IntSort()
B_ = z3.BoolSort()
qk = z3.Int("qk")


class FieldTok(Obj):
    """one data member of a key: comparing the two sides' members yields the ghost Bool eq_<field>"""
    cls = "field"

    def __init__(self, k, fname, side):
        Obj.__init__(self, name=fname)
        self.k, self.fname, self.side = k, fname, side

    def eq(self, other):
        if not isinstance(other, FieldTok) or other.fname != self.fname or other.side == self.side:
            raise Gap("field %s compared with %r" % (self.fname, other))
        return self.k.eq[self.fname]

    def compare(self, I, op, other):
        e = self.eq(other)
        return e if op == "==" else z3.Not(e)

    def op(self, I, op, rest, n, a0):
        if op in ("==", "!="):
            return self.compare(I, op, rest[0])
        return NotImplemented

    def m_has_value(self, I, args, n):
        return self.k.has[self.side]

    def m_equals(self, I, args, n):
        o = I.ctx.rv(args[0])
        if not isinstance(o, FieldTok) or o.fname != self.fname:
            raise Gap("equals with %r" % (o,))
        return self.k.scalars_equal


class KeyObj(Obj):
    cls = "InstanceKey"

    def __init__(self, k, side):
        Obj.__init__(self, name="key_" + side)
        self.k, self.side = k, side

    def member(self, ctx, name, node):
        return FieldTok(self.k, name, self.side)


class InstanceKeyEq(Kernel):
    name = "graph_wiring.cpp:InstanceKey::operator=="
    tu = TU
    filter = "InstanceKey"
    cls = "InstanceKey"
    fn_name = "operator=="
    property_ids = ("C06",)
    scope = {"lo": 0, "hi": 2}
    title = "InstanceKey equality compares every data member of the key (the member list is read from the AST each run)"
    extra_dumps = ((TU, "SourceKey"), (TU, "InputKey"), ("src/hgraph/types/graph_wiring.cpp", "WiringNodeSchema"))

    def locate(self, dumps):
        fn = Kernel.locate(self, dumps)
        recs = extract.find_record(dumps[(TU, "InstanceKey")], "InstanceKey")
        if not recs:
            raise Gap("record InstanceKey not found")
        self.fields = [c["name"] for c in recs[0].get("inner", []) if c.get("kind") == "FieldDecl"]
        # the nested keys rely on defaulted (member-wise) equality
        self.defaulted = {}
        for rec, key in (("SourceKey", (TU, "SourceKey")), ("InputKey", (TU, "InputKey")),
                         ("WiringNodeSchema", (TU, "WiringNodeSchema"))):
            ok = False
            for r in extract.find_record(dumps[key], rec):
                for c in r.get("inner", []):
                    if c.get("kind") == "CXXMethodDecl" and c.get("name") == "operator==" and c.get("explicitlyDefaulted") == "default":
                        ok = True
            self.defaulted[rec] = ok
        return fn

    def setup(self, I):
        self.eq = {f: z3.Bool("eq_" + f) for f in self.fields}
        self.has = {"this": z3.Bool("scalars_has_this"), "other": z3.Bool("scalars_has_other")}
        self.scalars_equal = z3.Bool("scalars_values_equal")
        return KeyObj(self, "this"), {"other": KeyObj(self, "other")}

    def post(self, I, ret):
        ctx = I.ctx
        if "scalars" not in self.eq:
            raise Gap("InstanceKey has no scalars member any more")
        sc = z3.And(self.has["this"] == self.has["other"], z3.Implies(self.has["this"], self.scalars_equal))
        others = [self.eq[f] for f in self.fields if f != "scalars"]
        ctx.oblige("ensures.equal=>every-member-equal[C06 nodes that differ in any input, scalar or resolved type stay distinct]",
                   z3.Implies(ret, z3.And(sc, *others)), kind="post-normal")
        ctx.oblige("ensures.every-member-equal=>equal[C06 equal inputs and scalars may share one instance]",
                   z3.Implies(z3.And(sc, *others), ret), kind="post-normal")
        for rec, ok in self.defaulted.items():
            ctx.oblige("structure.%s-equality-is-member-wise(defaulted)[C06 key completeness]" % rec, z3.BoolVal(ok), kind="post-normal")


# ------------------------------------------------------------------ add_node / add_unique_node


class WiringImpl(Obj):
    cls = "Wiring::Impl"


class InternTable(Obj):
    cls = "unordered_map<InstanceKey, instance>"

    def __init__(self, k):
        Obj.__init__(self, name="interned")
        self.k = k

    def m_find(self, I, args, n):
        ctx = I.ctx
        k = self.k
        key = ctx.rv(args[0])
        ctx.write(Loc((k.g.oid, "finds")), ctx.store[(k.g.oid, "finds")] + 1)
        ctx.write(Loc((k.g.oid, "find_key_ok")), z3.BoolVal(key is k.made_key))
        return TableIter(k, z3.Not(k.hit))

    def m_end(self, I, args, n):
        return TableIter(self.k, z3.BoolVal(True))

    def m_emplace(self, I, args, n):
        ctx = I.ctx
        k = self.k
        key, inst = ctx.rv(args[0]), ctx.rv(args[1])
        ctx.write(Loc((k.g.oid, "registers")), ctx.store[(k.g.oid, "registers")] + 1)
        ctx.write(Loc((k.g.oid, "register_ok")), z3.BoolVal(key is k.made_key and isinstance(inst, Ptr) and inst.target is k.new_instance))
        return VOID


class TableIter(Obj):
    cls = "iterator"
    is_value = True

    def __init__(self, k, is_end):
        Obj.__init__(self, name="it")
        self.k, self.is_end = k, is_end

    def compare(self, I, op, other):
        e = self.is_end if z3.is_true(z3.simplify(other.is_end)) else z3.And(self.is_end, other.is_end)
        return e if op == "==" else z3.Not(e)

    def op(self, I, op, rest, n, a0):
        if op in ("==", "!="):
            return self.compare(I, op, rest[0])
        return NotImplemented

    def arrow(self, I):
        from cxxvc.interp import Pair
        I.ctx.oblige("table-iterator-valid", z3.Not(self.is_end), kind="iterator")
        return Pair(z3.IntVal(0), Ptr(self.k.existing, z3.BoolVal(False)))


class Wild(Obj):
    cls = "wild"

    def member(self, ctx, name, node):
        return Wild(name=name)


class AddNode(Kernel):
    name = "graph_wiring.cpp:Wiring::add_node(WiringInputRef)"
    tu = TU
    filter = "Wiring::add_node"
    fn_name = "add_node"
    sig = "std::span<const WiringInputRef>"
    cls = None
    property_ids = ("C06",)
    scope = {"lo": 0, "hi": 2}
    title = "add_node: value-producing nodes are interned by the full key; sinks always get a new instance"
    unique = False

    def locate(self, dumps):
        objs = dumps[(self.tu, self.filter)]
        extract.annotate_files(objs)
        self.objs = objs
        self.index(objs)
        fns = [f for f in extract.find_functions(objs, self.fn_name) if self.sig in f.get("type", {}).get("qualType", "")
               and "WiringNodeSchema" not in f.get("type", {}).get("qualType", "")]
        seen = {f["id"]: f for f in fns}
        if len(seen) != 1:
            raise Gap("kernel %s: expected one definition, found %d" % (self.kid, len(seen)))
        self.fn = list(seen.values())[0]
        self.src = extract.fn_source(self.fn)
        return self.fn

    def setup(self, I):
        ctx = I.ctx
        th = Obj("Wiring", "this_wiring")
        impl = WiringImpl(name="impl_")
        self.impl = impl
        g = Obj("ghost", "wg")
        self.g = g
        for nm in ("finds", "registers", "appended", "passive_calls"):
            ctx.store[(g.oid, nm)] = z3.IntVal(0)
        ctx.store[(g.oid, "find_key_ok")] = z3.BoolVal(False)
        ctx.store[(g.oid, "register_ok")] = z3.BoolVal(False)
        ctx.store[(g.oid, "key_args_ok")] = z3.BoolVal(False)
        ctx.store[(th.oid, "impl_")] = Ptr(impl, z3.BoolVal(False))
        ctx.store[(impl.oid, "interned")] = InternTable(self)
        ctx.store[(impl.oid, "instances")] = InstanceDeque(self)
        ctx.store[(impl.oid, "pending_label")] = EmptyStr()
        self.hit = z3.Bool("intern_table_hit")
        self.output_null = z3.Bool("schema_output_null")
        self.existing = Obj("WiringInstance", "existing_instance")
        self.new_instance = None
        self.made_key = None
        self.def_ = Obj("type_index", "def")
        self.builder = BuilderObj(self)
        self.n_inputs = z3.Int("n_inputs")
        ctx.assume(self.n_inputs >= 0)
        self.is_passive = z3.Array("input_is_passive", I_, B_)
        self.inputs = Vec(ctx, "inputs", length=self.n_inputs, elem=lambda i: InputRef(self, i))
        self.scalars = Obj("Value", "scalars")
        self.schema = None
        self.result_of = None
        return th, {"def": self.def_, "builder": self.builder, "inputs": self.inputs, "scalars": self.scalars}

    def method_handler(self, obj, name, node):
        if name == "has_wiring_observers":
            return lambda I, o, a, n: z3.BoolVal(False)
        return Kernel.method_handler(self, obj, name, node)

    def function_handler(self, name, node, callee_node):
        h = getattr(self, "f_" + name, None)
        if h is not None:
            return h
        return Kernel.function_handler(self, name, node, callee_node)

    def f_resolved_schema_of(self, I, args, n):
        s = Obj("WiringNodeSchema", "schema")
        I.ctx.store[(s.oid, "output")] = Ptr(Obj("ts", "output_schema"), self.output_null)
        self.schema = s
        return s

    def f_make_key(self, I, args, n):
        ctx = I.ctx
        a = [ctx.rv(x) for x in args]
        ok = a[0] is self.def_ and a[1] is self.schema and a[2] is self.inputs and a[3] is self.scalars
        ctx.write(Loc((self.g.oid, "key_args_ok")), z3.BoolVal(ok))
        self.made_key = Obj("InstanceKey", "key")
        return self.made_key

    def f_output_schema_of(self, I, args, n):
        return Ptr(Obj("ts", "out_schema"), I.ctx.fresh("out_schema_null", "bool"))

    def f_peered_source(self, I, args, n):
        inst = I.ctx.rv(args[0])
        r = Obj("WiringPortRef", "result_port")
        r.inst = inst.target if isinstance(inst, Ptr) else inst
        return r

    def f_make_node_wiring_event(self, I, args, n):
        return Wild(name="event")

    def ctor_handler(self, qt, node):
        if qt.endswith("InstanceKey") or qt.endswith("WiringNodeSchema") or qt.endswith("NodeBuilder") or qt.endswith("Value") \
                or qt.endswith("WiringPortRef"):
            return lambda I, args, n: I.ctx.rv(args[0]) if args else Wild(name=qt[-16:])
        return Kernel.ctor_handler(self, qt, node)

    def inv_passive(self, I, ctx):
        s = self.local(I, "slot")
        yield "slot-range", z3.And(s >= 0, s <= self.n_inputs)

    def frame_passive(self, I, ctx):
        v = self.local_obj(I, "passive_slots")
        return [v.loc("len"), v.loc("data")]

    @property
    def loops(self):
        return {0: LoopSpec(self.inv_passive, self.frame_passive)}

    def post(self, I, ret):
        ctx = I.ctx
        g = self.g
        interns = z3.Not(self.output_null)
        reuse = z3.And(interns, self.hit)
        new = self.new_instance is not None
        ctx.oblige("ensures.key-built-from-exactly-this-call's-definition,schema,inputs,scalars[C06 key completeness]",
                   ctx.store[(g.oid, "key_args_ok")], kind="post-normal")
        ctx.oblige("ensures.sink(no output)=>never-consults-the-table,always-a-new-instance[C06 all sink nodes remain distinct]",
                   z3.Implies(self.output_null, z3.And(ctx.store[(g.oid, "finds")] == 0, ctx.store[(g.oid, "registers")] == 0,
                                                       ctx.store[(g.oid, "appended")] == 1, z3.BoolVal(new and ret.inst is self.new_instance))),
                   kind="post-normal")
        ctx.oblige("ensures.shared-only-on-a-table-hit-for-the-same-key[C06 sharing only for equal keys]",
                   z3.Implies(reuse, z3.And(ctx.store[(g.oid, "appended")] == 0, ctx.store[(g.oid, "find_key_ok")],
                                            z3.BoolVal(ret.inst is self.existing))), kind="post-normal")
        ctx.oblige("ensures.miss=>new-instance-registered-under-exactly-that-key[C06]",
                   z3.Implies(z3.And(interns, z3.Not(self.hit)), z3.And(
                       ctx.store[(g.oid, "appended")] == 1, ctx.store[(g.oid, "registers")] == 1, ctx.store[(g.oid, "register_ok")],
                       z3.BoolVal(new and ret.inst is self.new_instance))), kind="post-normal")


class EmptyStr(Obj):
    cls = "std::string"

    def m_empty(self, I, args, n):
        return z3.BoolVal(True)


class InstanceDeque(Obj):
    cls = "deque<WiringInstance>"

    def __init__(self, k):
        Obj.__init__(self, name="instances")
        self.k = k

    def m_emplace_back(self, I, args, n):
        ctx = I.ctx
        k = self.k
        ctx.write(Loc((k.g.oid, "appended")), ctx.store[(k.g.oid, "appended")] + 1)
        inst = Obj("WiringInstance", "new_instance")
        for f in ("definition", "builder"):
            ctx.store[(inst.oid, f)] = None
        ctx.store[(inst.oid, "inputs")] = AssignSink()
        k.new_instance = inst
        return inst


class AssignSink(Obj):
    cls = "vector"

    def m_assign(self, I, args, n):
        return VOID


class BuilderObj(Obj):
    cls = "NodeBuilder"

    def __init__(self, k):
        Obj.__init__(self, name="builder")
        self.k = k

    def m_with_passive_inputs(self, I, args, n):
        I.ctx.write(Loc((self.k.g.oid, "passive_calls")), I.ctx.store[(self.k.g.oid, "passive_calls")] + 1)
        return self

    def m_scalars(self, I, args, n):
        return VOID

    def op(self, I, op, rest, n, a0):
        if op == "=":
            return self
        return NotImplemented


class InputRef(Obj):
    cls = "WiringInputRef"

    def __init__(self, k, idx):
        Obj.__init__(self, name="input")
        self.k, self.idx = k, idx

    def member(self, ctx, name, node):
        if name == "source":
            return SourceRef(self.k, self.idx)
        raise Gap("input member %s" % name)


class SourceRef(Obj):
    cls = "WiringPortRef"

    def __init__(self, k, idx):
        Obj.__init__(self, name="source")
        self.k, self.idx = k, idx

    def member(self, ctx, name, node):
        if name == "arg_tag":
            return z3.If(self.k.is_passive[self.idx], z3.IntVal(7), z3.IntVal(0))
        raise Gap("source member %s" % name)


def _enum(self, I, ref):
    return z3.IntVal(7) if ref.get("name") == "Passive" else z3.IntVal(100 + abs(hash(ref.get("name"))) % 50)


AddNode.enum_const = _enum


class AddUniqueNode(AddNode):
    name = "graph_wiring.cpp:Wiring::add_unique_node(WiringInputRef)"
    filter = "Wiring::add_unique_node"
    fn_name = "add_unique_node"
    title = "add_unique_node: never consults the interning table"
    loops = {}

    def post(self, I, ret):
        ctx = I.ctx
        g = self.g
        ctx.oblige("ensures.always-a-new-instance,table-untouched[C06]", z3.And(
            ctx.store[(g.oid, "finds")] == 0, ctx.store[(g.oid, "registers")] == 0, ctx.store[(g.oid, "appended")] == 1,
            z3.BoolVal(self.new_instance is not None and ret.inst is self.new_instance)), kind="post-normal")


# ------------------------------------------------------------------ declared rank-free edges (C01)


class InstPtr(Obj):
    """const WiringInstance* as an integer id (0 = nullptr)"""
    cls = "WiringInstance*"


class AddRankDependency(Kernel):
    name = "graph_wiring.cpp:Wiring::add_rank_dependency"
    tu = TU
    filter = "Wiring::add_rank_dependency"
    fn_name = "add_rank_dependency"
    property_ids = ("C01",)
    scope = {"lo": 0, "hi": 3}
    title = "add_rank_dependency: null and self dependencies rejected; the edge is recorded once"

    def setup(self, I):
        ctx = I.ctx
        self.node, self.dep = z3.Int("node"), z3.Int("depends_on")
        ctx.assume(z3.And(self.node >= 0, self.dep >= 0))
        self.deps = Vec(ctx, "rank_dependencies")
        ctx.assume(self.deps.length(ctx) >= 0)
        self.len0, self.data0 = self.deps.length(ctx), self.deps.data(ctx)
        inst = Obj("WiringInstance", "node_instance")
        ctx.store[(inst.oid, "rank_dependencies")] = self.deps
        self.inst = inst
        return Obj("Wiring", "this"), {"node": self.node, "depends_on": self.dep}

    def deref_int(self, I, v, n):
        I.ctx.oblige("nonnull-instance-pointer", v != 0, kind="null-deref")
        return self.inst

    def function_handler(self, name, node, callee_node):
        if name == "find":
            def find(I, a, n):
                ctx = I.ctx
                b, e, v = ctx.rv(a[0]), ctx.rv(a[1]), ctx.rv(a[2])
                pos = ctx.fresh("find_pos")
                d, L = self.deps.data(ctx), self.deps.length(ctx)
                vid = v
                ctx.assume(z3.Or(z3.And(pos == L, z3.ForAll([qk], z3.Implies(z3.And(qk >= 0, qk < L), d[qk] != vid))),
                                 z3.And(pos >= 0, pos < L, d[pos] == vid)))
                from cxxvc.models import VecIter
                return VecIter(self.deps, pos)
            return find
        return Kernel.function_handler(self, name, node, callee_node)

    def post(self, I, ret):
        ctx = I.ctx
        d, L = self.deps.data(ctx), self.deps.length(ctx)
        was = z3.Exists([qk], z3.And(qk >= 0, qk < self.len0, self.data0[qk] == self.dep))
        ctx.oblige("ensures.valid-distinct-nodes", z3.And(self.node != 0, self.dep != 0, self.node != self.dep), kind="post-normal")
        ctx.oblige("ensures.edge-present-afterwards,recorded-once[C01 rank-free edges are declared, not accidental]",
                   z3.And(z3.Exists([qk], z3.And(qk >= 0, qk < L, d[qk] == self.dep)),
                          L == z3.If(was, self.len0, self.len0 + 1),
                          z3.ForAll([qk], z3.Implies(z3.And(qk >= 0, qk < self.len0), d[qk] == self.data0[qk]))), kind="post-normal")

    def post_exc(self, I, exc):
        ctx = I.ctx
        ctx.oblige("raises.invalid_argument-iff-null-or-self-dependency", z3.And(
            z3.BoolVal(exc.cls == "std::invalid_argument"), z3.Or(self.node == 0, self.dep == 0, self.node == self.dep)),
            kind="post-exceptional")
        ctx.oblige("raises.nothing-recorded", self.deps.length(ctx) == self.len0, kind="post-exceptional")


class NodePtr(Obj):
    cls = "const WiringInstance *"
    is_value = True

    def __init__(self, k, v):
        Obj.__init__(self, name="instance_ptr")
        self.k, self.v = k, v

    def binop(self, I, op, other):
        from cxxvc.interp import Ptr as P
        if isinstance(other, P) and other.target is None:
            e = self.v == 0
        elif isinstance(other, NodePtr):
            e = self.v == other.v
        else:
            raise Gap("instance pointer compared with %r" % (other,))
        return e if op == "==" else z3.Not(e)

    compare = binop

    def arrow(self, I):
        return self.k.inst


class ValidateSameCyclePairs(Kernel):
    name = "graph_wiring.cpp:Wiring::validate_same_cycle_pairs"
    tu = TU
    filter = "Wiring::validate_same_cycle_pairs"
    fn_name = "validate_same_cycle_pairs"
    property_ids = ("C01",)
    scope = {"lo": 0, "hi": 3}
    title = "validate_same_cycle_pairs: every declared pair has index_of[capture] < index_of[source], else logic_error"
    opaque_lambdas = ("name_of",)

    def setup(self, I):
        ctx = I.ctx
        th = Obj("Wiring", "this")
        impl = Obj("Impl", "impl_")
        ctx.store[(th.oid, "impl_")] = Ptr(impl, z3.BoolVal(False))
        self.np = z3.Int("n_pairs")
        ctx.assume(self.np >= 0)
        self.cap = z3.Array("pair_capture", I_, I_)
        self.pair_src = z3.Array("pair_source", I_, I_)
        ctx.store[(impl.oid, "same_cycle_pairs")] = Vec(ctx, "pairs", length=self.np, elem=lambda i: PairObj(self, i))
        self.index_of = MapKV(ctx, "index_of")
        return th, {"index_of": self.index_of}

    def ok(self, i):
        has, val = self.index_of.has(self.I.ctx), self.index_of.val(self.I.ctx)
        c, s = self.cap[i], self.pair_src[i]
        return z3.And(has[c], has[s], val[c] < val[s])

    def inv(self, I, ctx):
        pos = self.range_pos(I)
        yield "pos-range", z3.And(pos >= 0, pos <= self.np)
        yield "pairs-so-far-ordered", z3.ForAll([qk], z3.Implies(z3.And(qk >= 0, qk < pos), self.ok(qk)))

    @property
    def loops(self):
        return {0: LoopSpec(self.inv)}

    def function_handler(self, name, node, callee_node):
        if name == "to_string":
            return lambda I, a, n: I.ctx.fresh("num_str")
        return Kernel.function_handler(self, name, node, callee_node)

    def post(self, I, ret):
        ctx = I.ctx
        ctx.oblige("ensures.normal-return=>every-declared-pair-is-ranked-capture-before-source[C01 same-cycle pairs validated]",
                   z3.ForAll([qk], z3.Implies(z3.And(qk >= 0, qk < self.np), self.ok(qk))), kind="post-normal")

    def post_exc(self, I, exc):
        ctx = I.ctx
        ctx.oblige("raises.logic_error-only-when-some-pair-is-lost-or-misordered[C01 rejected when built, never run]",
                   z3.And(z3.BoolVal(exc.cls == "std::logic_error"),
                          z3.Exists([qk], z3.And(qk >= 0, qk < self.np, z3.Not(self.ok(qk))))), kind="post-exceptional")


class PairObj(Obj):
    cls = "SameCyclePair"

    def __init__(self, k, idx):
        Obj.__init__(self, name="pair")
        self.k, self.idx = k, idx

    def member(self, ctx, name, node):
        if name == "capture":
            return self.k.cap[self.idx]
        if name == "source":
            return self.k.pair_src[self.idx]
        raise Gap("pair member %s" % name)


KERNELS = [InstanceKeyEq, AddNode, AddUniqueNode, AddRankDependency, ValidateSameCyclePairs]


class AddNodeDeferred(AddNode):
    name = "graph_wiring.cpp:Wiring::add_node(schema, make_builder)"
    title = "add_node with a deferred builder: same interning contract; the builder is only made on a miss"
    sig = "std::function<NodeBuilder ()>"

    def locate(self, dumps):
        objs = dumps[(self.tu, self.filter)]
        extract.annotate_files(objs)
        self.objs = objs
        self.index(objs)
        fns = [f for f in extract.find_functions(objs, self.fn_name)
               if "std::span<const WiringInputRef>" in f.get("type", {}).get("qualType", "")
               and "WiringNodeSchema" in f.get("type", {}).get("qualType", "")]
        seen = {f["id"]: f for f in fns}
        if len(seen) != 1:
            raise Gap("kernel %s: expected one definition, found %d" % (self.kid, len(seen)))
        self.fn = list(seen.values())[0]
        self.src = extract.fn_source(self.fn)
        return self.fn

    def setup(self, I):
        th, params = AddNode.setup(self, I)
        ctx = I.ctx
        s = Obj("WiringNodeSchema", "schema")
        ctx.store[(s.oid, "output")] = Ptr(Obj("ts", "output_schema"), self.output_null)
        self.schema = s
        ctx.store[(self.g.oid, "builders_made")] = z3.IntVal(0)
        k = self

        class MakeBuilder(Obj):
            cls = "std::function<NodeBuilder()>"

            def call(self_, I2, args, n):
                I2.ctx.write(Loc((k.g.oid, "builders_made")), I2.ctx.store[(k.g.oid, "builders_made")] + 1)
                return k.builder
        del params["builder"]
        params["schema"] = s
        params["make_builder"] = MakeBuilder(name="make_builder")
        return th, params

    # loop 0 here is the observer-only loop over inputs (dead: no observers)
    loops = {0: LoopSpec(unroll=0, unwind_assert=True)}

    def post(self, I, ret):
        AddNode.post(self, I, ret)
        ctx = I.ctx
        reuse = z3.And(z3.Not(self.output_null), self.hit)
        ctx.oblige("ensures.builder-made-only-on-a-miss", ctx.store[(self.g.oid, "builders_made")] == z3.If(reuse, 0, 1),
                   kind="post-normal")


def _scalars_opt(self, I, args, n):
    if not args:
        return Opt(I.ctx.fresh("builder_scalars_has", "bool"), None)
    return VOID


BuilderObj.m_scalars = _scalars_opt
KERNELS += [AddNodeDeferred]


# ------------------------------------------------------------------ source_key_for: the interning key is complete
#
# Two wirings may share one node only when their keys are equal (InstanceKey::operator==, above), so the key of an input's
# source must carry every attribute that distinguishes two ports.  source_key_for is proved to copy, per source kind, all
# of them; for a structural source the children are keyed by the recursive call in order (structural induction: the
# recursive call's result is complete for the child by the induction hypothesis, stated as its contract).

SK_FIELDS = ["kind", "peered_output_kind", "peered_node", "peered_path", "schema", "structural_children", "boundary_arg",
             "boundary_path", "captured_boundary", "delayed_state", "delayed_path"]
SK_DEFAULT = {"kind": -100, "peered_output_kind": -101, "peered_node": 0, "peered_path": -103, "schema": 0,
              "boundary_arg": -1, "boundary_path": -106, "captured_boundary": False, "delayed_state": 0, "delayed_path": -109}


class ChildKeys(Obj):
    """std::vector<SourceKey>: the child indices whose keys were appended, in order"""
    cls = "std::vector<SourceKey>"

    def __init__(self, ctx):
        Obj.__init__(self, name="structural_children")
        ctx.store[(self.oid, "len")] = z3.IntVal(0)
        ctx.store[(self.oid, "data")] = z3.K(I_, z3.IntVal(-1))

    def m_reserve(self, I, args, n):
        return VOID

    def m_push_back(self, I, args, n):
        ctx = I.ctx
        v = ctx.rv(args[0])
        if not isinstance(v, SKey) or v.of_child is None:
            raise Gap("a key that is not the result of source_key_for(child) was appended")
        L = ctx.store[(self.oid, "len")]
        ctx.write(Loc((self.oid, "data")), z3.Store(ctx.store[(self.oid, "data")], L, v.of_child))
        ctx.write(Loc((self.oid, "len")), L + 1)
        return VOID


class SKey(Obj):
    cls = "SourceKey"

    def __init__(self, ctx, vals, of_child=None, fields=None):
        """fields: [(name, type)] as declared in the struct this run (read from the AST), so that renaming or merging
        members does not put the function out of reach"""
        Obj.__init__(self, name="source_key")
        self.of_child = of_child
        self.fields = fields if fields is not None else [(f, "bool" if f == "captured_boundary" else "") for f in SK_FIELDS]
        self.children_field = None
        for i, (f, ty) in enumerate(self.fields):
            if "SourceKey" in ty and "vector" in ty or (fields is None and f == "structural_children"):
                ctx.store[(self.oid, f)] = ChildKeys(ctx)
                self.children_field = f
            else:
                v = vals.get(f)
                if v is None:
                    if f in SK_DEFAULT and fields is None:
                        d = SK_DEFAULT[f]
                        v = z3.BoolVal(d) if isinstance(d, bool) else z3.IntVal(d)
                    else:
                        v = z3.BoolVal(False) if ty in ("bool", "_Bool") else z3.IntVal(-100 - i)   # default member initialiser
                ctx.store[(self.oid, f)] = v

    def scalar_fields(self, ctx):
        return [ctx.store[(self.oid, f)] for f, _ in self.fields if f != self.children_field]


class PortObj6(Obj):
    """WiringPortRef with symbolic attributes; child ports are identified by their index"""
    cls = "WiringPortRef"

    def __init__(self, k, child=None):
        Obj.__init__(self, name="source" if child is None else "child_port")
        self.k, self.child = k, child

    def member(self, ctx, name, node):
        if name == "schema":
            return self.k.attr("schema") if self.child is None else z3.Int("child_schema")
        raise Gap("port member %s" % name)

    def _m(self, nm):
        if self.child is not None:
            raise Gap("attribute of a child port read outside the recursive call")
        return self.k.attr(nm)

    def m_source_kind(self, I, a, n): return self._m("kind")
    def m_is_peered_source(self, I, a, n): return self._m("kind") == 1
    def m_is_structural_source(self, I, a, n): return self._m("kind") == 2
    def m_is_boundary_source(self, I, a, n): return self._m("kind") == 3
    def m_is_delayed_source(self, I, a, n): return self._m("kind") == 4
    def m_peered_node(self, I, a, n): return self._m("peered_node")
    def m_peered_path(self, I, a, n): return self._m("peered_path")
    def m_peered_output_kind(self, I, a, n): return self._m("peered_output_kind")
    def m_is_captured_boundary_source(self, I, a, n): return self.k.captured
    def m_boundary_capture_index(self, I, a, n): return self._m("capture_index")
    def m_boundary_arg_index(self, I, a, n): return self._m("arg_index")
    def m_boundary_path(self, I, a, n): return self._m("boundary_path")
    def m_delayed_path(self, I, a, n): return self._m("delayed_path")

    def m_delayed_state(self, I, a, n):
        o = Obj("shared_ptr", "delayed_state")
        o.m_get = lambda I_, a_, n_: self._m("delayed_state")
        return o

    def m_structural_children(self, I, a, n):
        k = self.k
        return Vec(I.ctx, "children", length=k.nchildren, elem=lambda j: PortObj6(k, child=j))


class SourceKeyFor(Kernel):
    tu = TU
    name = "graph_wiring.cpp:source_key_for"
    fn_name = "source_key_for"
    filter = "source_key_for"
    property_ids = ("C06",)
    scope = {"lo": 0, "hi": 3}
    title = "source_key_for: the interning key of a source carries every attribute that distinguishes two ports"
    extra_dumps = ((TU, "SourceKey"),)

    def locate(self, dumps):
        fn = Kernel.locate(self, dumps)
        recs = [r for r in extract.find_record(dumps[(TU, "SourceKey")], "SourceKey") if r.get("completeDefinition")]
        if not recs:
            raise Gap("record SourceKey not found")
        self.key_fields = [(c["name"], c.get("type", {}).get("qualType", "")) for c in recs[0].get("inner", [])
                           if c.get("kind") == "FieldDecl"]
        return fn

    def attr(self, nm):
        return z3.Int("port_" + nm)

    def setup(self, I):
        ctx = I.ctx
        self.nchildren = z3.Int("n_children")
        self.captured = z3.Bool("port_is_captured_boundary")
        ctx.assume(self.nchildren >= 0)
        ctx.assume(z3.And(self.attr("kind") >= 0, self.attr("kind") <= 4))
        return None, {"source": PortObj6(self)}

    def ctor_handler(self, qt, node):
        if qt.endswith("SourceKey") and "vector" not in qt:
            def mk(I, args, n):
                a = [I.ctx.rv(x) if not (x is None) else None for x in args]
                if len(a) == 1 and isinstance(a[0], SKey):
                    return a[0]
                vals = {}
                from cxxvc.interp import DEFAULT_ARG
                for (f, _), v in zip(self.key_fields, a):
                    if v is DEFAULT_ARG or isinstance(v, Obj):
                        continue
                    vals[f] = v
                return SKey(I.ctx, vals, fields=self.key_fields)
            return mk
        return Kernel.ctor_handler(self, qt, node)

    def function_handler(self, name, node, callee_node):
        if name == "source_key_for":
            def rec(I, args, n):
                p = I.ctx.rv(args[0])
                if not isinstance(p, PortObj6) or p.child is None:
                    raise Gap("recursive call on something that is not a child port")
                return SKey(I.ctx, {}, of_child=p.child, fields=self.key_fields)
            return rec
        return Kernel.function_handler(self, name, node, callee_node)

    def key_local(self, I):
        return self.local_obj(I, "key")

    def children_of(self, ctx, key):
        if key.children_field is None:
            raise Gap("SourceKey has no member holding the children's keys")
        return ctx.store[(key.oid, key.children_field)]

    def inv(self, I, ctx):
        key = self.key_local(I)
        sc = self.children_of(ctx, key)
        L, D = ctx.store[(sc.oid, "len")], ctx.store[(sc.oid, "data")]
        pos = self.range_pos(I)
        yield "children-keyed-so-far,in-order", z3.And(L == pos, pos >= 0, pos <= self.nchildren,
                                                       z3.ForAll([qk], z3.Implies(z3.And(qk >= 0, qk < L), D[qk] == qk)))

    def frame(self, I, ctx):
        key = self.key_local(I)
        sc = self.children_of(ctx, key)
        return [Loc((sc.oid, "len")), Loc((sc.oid, "data"))]

    @property
    def loops(self):
        return {0: LoopSpec(self.inv, self.frame)}

    def post(self, I, ret):
        ctx = I.ctx
        if not isinstance(ret, SKey):
            raise Gap("source_key_for did not return a SourceKey")
        # "in the key": some member of the returned key holds the attribute (which member is the code's business; equality of
        # keys is member-wise, InstanceKeyEq above, so any member will do)
        fields = ret.scalar_fields(ctx)

        def in_key(v):
            return z3.Or(*[fv == v for fv in fields if z3.is_bool(fv) == z3.is_bool(v)])
        kind = self.attr("kind")
        sc = self.children_of(ctx, ret)
        L, D = ctx.store[(sc.oid, "len")], ctx.store[(sc.oid, "data")]
        ctx.oblige("ensures.kind-and-schema-in-the-key[C06 nodes are shared only when node type, arguments and inputs are identical]",
                   z3.And(in_key(kind), in_key(self.attr("schema"))), kind="post-normal")
        ctx.oblige("ensures.peered-source:producer,output-path-and-output-kind-in-the-key[C06 different inputs are never shared]",
                   z3.Implies(kind == 1, z3.And(in_key(self.attr("peered_node")), in_key(self.attr("peered_path")),
                                                in_key(self.attr("peered_output_kind")))), kind="post-normal")
        ctx.oblige("ensures.structural-source:every-child-keyed-once,in-order[C06]",
                   z3.Implies(kind == 2, z3.And(L == self.nchildren, z3.ForAll([qk], z3.Implies(z3.And(qk >= 0, qk < L), D[qk] == qk)))),
                   kind="post-normal")
        ctx.oblige("ensures.boundary-source:argument,path-and-capture-flag-in-the-key[C06]",
                   z3.Implies(kind == 3, z3.And(in_key(z3.If(self.captured, self.attr("capture_index"), self.attr("arg_index"))),
                                                in_key(self.attr("boundary_path")), in_key(self.captured))),
                   kind="post-normal")
        ctx.oblige("ensures.delayed-source:state-and-path-in-the-key[C06]",
                   z3.Implies(kind == 4, z3.And(in_key(self.attr("delayed_state")), in_key(self.attr("delayed_path")))),
                   kind="post-normal")


KERNELS += [SourceKeyFor]


# ------------------------------------------------------------------ make_key: every behaviour-relevant attribute of an input
#
# Two wirings of a value-producing node are one node exactly when their keys are equal, so the key must distinguish any
# two wirings that would behave differently.  Per input that is: which source it reads (source_key_for), which input
# position it feeds (target path, defaulting to the input's index), whether it constrains the rank, and whether the
# consumer reads it passively (the passive(...) marker removes the slot from the node's active list: C03).


class InKeyVec(Obj):
    cls = "std::vector<InputKey>"

    def __init__(self, ctx):
        Obj.__init__(self, name="key_inputs")
        ctx.store[(self.oid, "len")] = z3.IntVal(0)
        for f in ("src", "path", "rank", "passive"):
            ctx.store[(self.oid, f)] = z3.K(I_, z3.IntVal(-1))

    def m_reserve(self, I, args, n):
        return VOID

    def m_push_back(self, I, args, n):
        ctx = I.ctx
        v = ctx.rv(args[0])
        if not isinstance(v, InKey):
            raise Gap("something that is not an InputKey was appended to the key")
        L = ctx.store[(self.oid, "len")]
        b2i = lambda b: z3.If(b, z3.IntVal(1), z3.IntVal(0)) if z3.is_bool(b) else b
        for f, val in (("src", v.src), ("path", v.path), ("rank", b2i(v.rank)), ("passive", b2i(v.passive))):
            ctx.write(Loc((self.oid, f)), z3.Store(ctx.store[(self.oid, f)], L, val))
        ctx.write(Loc((self.oid, "len")), L + 1)
        return VOID


class InKey(Obj):
    cls = "InputKey"

    def __init__(self, src, path, rank, passive):
        Obj.__init__(self, name="input_key")
        self.src, self.path, self.rank, self.passive = src, path, rank, passive


class InRef(Obj):
    """WiringInputRef i: source port (identified by i), target_path, rank_dependency"""
    cls = "WiringInputRef"

    def __init__(self, k, i):
        Obj.__init__(self, name="input")
        self.k, self.i = k, i

    def member(self, ctx, name, node):
        k, i = self.k, self.i
        if name == "source":
            return InSource(k, i)
        if name == "target_path":
            return PathVal(k.path_id[i], k.path_empty[i])
        if name == "rank_dependency":
            return k.rank_dep[i]
        raise Gap("input member %s" % name)


class InSource(Obj):
    cls = "WiringPortRef"

    def __init__(self, k, i):
        Obj.__init__(self, name="source")
        self.k, self.i = k, i

    def member(self, ctx, name, node):
        if name == "arg_tag":
            return self.k.arg_tag[self.i]
        raise Gap("source member %s" % name)


class PathVal(Obj):
    cls = "std::vector<size_t>(path)"

    def __init__(self, pid, empty):
        Obj.__init__(self, name="path")
        self.pid, self.empty = pid, empty

    def m_empty(self, I, args, n):
        return self.empty


class MakeKey(Kernel):
    tu = TU
    name = "graph_wiring.cpp:make_key"
    fn_name = "make_key"
    filter = "make_key"
    property_ids = ("C06", "C03")
    scope = {"lo": 0, "hi": 3}
    title = "make_key: the interning key carries, per input, its source, target position, rank flag and passive marker"

    def setup(self, I):
        ctx = I.ctx
        self.n = z3.Int("n_inputs")
        ctx.assume(self.n >= 0)
        A = lambda nm, s=I_: z3.Array(nm, I_, s)
        self.path_id, self.path_empty, self.rank_dep, self.arg_tag = A("target_path_id"), A("target_path_empty", B_), \
            A("rank_dependency", B_), A("arg_tag")
        ctx.assume(z3.ForAll([qk], z3.And(self.arg_tag[qk] >= 0, self.arg_tag[qk] <= 3)))
        self.inputs = Vec(ctx, "inputs", length=self.n, elem=lambda i: InRef(self, i))
        self.keyvec = None
        return None, {"def": Obj("type_index", "def"), "schema": Obj("WiringNodeSchema", "schema"), "inputs": self.inputs,
                      "scalars": Obj("Value", "scalars")}

    def enum_const(self, I, ref):
        tbl = {"None": 0, "PassThrough": 1, "NoKey": 2, "Passive": 3}
        if ref.get("name") in tbl:
            return z3.IntVal(tbl[ref["name"]])
        raise Gap("enum constant %s" % ref.get("name"))

    def function_handler(self, name, node, callee_node):
        if name == "source_key_for":
            def skf(I, args, n):
                s = I.ctx.rv(args[0])
                if not isinstance(s, InSource):
                    raise Gap("source_key_for of something that is not an input's source")
                o = Obj("SourceKey", "source_key")
                o.of_input = s.i
                return o
            return skf
        return Kernel.function_handler(self, name, node, callee_node)

    def ctor_handler(self, qt, node):
        if qt.endswith("InstanceKey"):
            def mk(I, args, n):
                a = [I.ctx.rv(x) for x in args]
                if len(a) == 1 and isinstance(a[0], Obj) and a[0].cls == "InstanceKey":
                    return a[0]
                o = Obj("InstanceKey", "key")
                self.keyvec = InKeyVec(I.ctx)
                I.ctx.store[(o.oid, "inputs")] = self.keyvec
                return o
            return mk
        if qt.endswith("InputKey"):
            def mki(I, args, n):
                from cxxvc.interp import DEFAULT_ARG
                a = [I.ctx.rv(x) for x in args]
                if len(a) == 1 and isinstance(a[0], InKey):
                    return a[0]
                src = a[0].of_input if len(a) > 0 and hasattr(a[0], "of_input") else z3.IntVal(-7)
                path = a[1] if len(a) > 1 and isinstance(a[1], z3.ExprRef) else z3.IntVal(-7)
                rank = a[2] if len(a) > 2 and isinstance(a[2], z3.ExprRef) else z3.BoolVal(True)
                passive = a[3] if len(a) > 3 and isinstance(a[3], z3.ExprRef) else z3.BoolVal(False)
                return InKey(src, path, rank, passive)
            return mki
        if "vector<" in qt and ("size_t" in qt or "unsigned long" in qt):
            def mkv(I, args, n):
                from cxxvc.interp import DEFAULT_ARG, InitList
                a = [I.ctx.rv(x) for x in args if x is not DEFAULT_ARG]
                a = [x for x in a if x is not DEFAULT_ARG]
                if len(a) == 1 and isinstance(a[0], PathVal):
                    return a[0].pid
                if len(a) == 1 and isinstance(a[0], InitList) and len(a[0]) == 1:
                    a = [I.ctx.rv(a[0][0])]
                if len(a) == 1 and isinstance(a[0], z3.ExprRef):
                    return -100 - a[0]          # the one-element path {index}: encoded as -100 - index
                raise Gap("target path constructed from %r" % (a,))
            return mkv
        if qt.endswith("Value") or qt.endswith("WiringNodeSchema") or qt.endswith("type_index"):
            return lambda I, args, n: I.ctx.rv(args[0]) if args else Obj("value", "value")
        return Kernel.ctor_handler(self, qt, node)

    def inv(self, I, ctx):
        i = self.local(I, "index")
        kv = self.keyvec
        yield "index-range", z3.And(i >= 0, i <= self.n)
        if kv is None:
            raise Gap("make_key: no key under construction at the loop")
        yield "inputs-keyed-so-far[C06; C03]", z3.And(ctx.store[(kv.oid, "len")] == i, self.keyed(ctx, i))

    def keyed(self, ctx, upto):
        kv = self.keyvec
        g = lambda f: ctx.store[(kv.oid, f)]
        want_path = z3.If(self.path_empty[qk], -100 - qk, self.path_id[qk])
        b2i = lambda b: z3.If(b, z3.IntVal(1), z3.IntVal(0))
        return z3.ForAll([qk], z3.Implies(z3.And(qk >= 0, qk < upto), z3.And(
            g("src")[qk] == qk, g("path")[qk] == want_path, g("rank")[qk] == b2i(self.rank_dep[qk]),
            g("passive")[qk] == b2i(self.arg_tag[qk] == 3))))

    def frame(self, I, ctx):
        kv = self.keyvec
        return [Loc((kv.oid, f)) for f in ("len", "src", "path", "rank", "passive")]

    @property
    def loops(self):
        return {0: LoopSpec(self.inv, self.frame)}

    def post(self, I, ret):
        ctx = I.ctx
        kv = self.keyvec
        if kv is None:
            raise Gap("make_key returned without building a key")
        ctx.oblige("ensures.every-input-keyed-by-source,target-position,rank-flag-and-passive-marker[C06 nodes are shared only when "
                   "their inputs are identical; C03 a passive input does not trigger evaluation]",
                   z3.And(ctx.store[(kv.oid, "len")] == self.n, self.keyed(ctx, self.n)), kind="post-normal")


KERNELS += [MakeKey]


# ------------------------------------------------------------------ collect_producers (which rank edges an input contributes)


class CPPort(Obj):
    cls = "WiringPortRef"

    def __init__(self, k, ident):
        Obj.__init__(self, name="port_%s" % (ident,))
        self.k, self.ident = k, ident          # ident: "root" | "resolved" | child index (z3 Int)

    def kind(self):
        if isinstance(self.ident, str):
            if self.ident == "root":
                return self.k.kind
            raise Gap("attribute of the resolved port read outside the recursive call")
        return self.k.ckind[self.ident]

    def _is(self, v):
        return self.kind() == v

    def m_is_delayed_source(self, I, a, n): return self._is(4)
    def m_is_peered_source(self, I, a, n): return self._is(1)
    def m_is_structural_source(self, I, a, n): return self._is(2)
    def m_is_null_source(self, I, a, n): return self._is(5)
    def m_is_boundary_source(self, I, a, n): return self._is(3)
    def m_is_unbound_source(self, I, a, n): return self._is(0)

    def m_peered_node(self, I, a, n):
        if isinstance(self.ident, str):
            if self.ident == "root":
                return self.k.node
            raise Gap("attribute of the resolved port read outside the recursive call")
        return self.k.cnode[self.ident]

    def m_structural_children(self, I, a, n):
        if not (isinstance(self.ident, str) and self.ident == "root"):
            raise Gap("children of a derived port read outside the recursive call")
        k = self.k
        return Vec(I.ctx, "children", length=k.nchildren, elem=lambda j: CPPort(k, j))

    def m_delayed_state(self, I, a, n):
        # reading the placeholder directly bypasses resolve_delayed_source: allowed, but what is read is opaque
        return Ptr(DelayedState(self.k), I.ctx.fresh("delayed_state_null", "bool"))


class DelayedState(Obj):
    cls = "WiringDelayedBindingState"

    def __init__(self, k):
        Obj.__init__(self, name="delayed_state")
        self.k = k

    def member(self, ctx, name, node):
        if name == "source":
            return Opt(ctx.fresh("placeholder_bound", "bool"), OpaquePort(self.k))
        raise Gap("delayed state member %s" % name)


class OpaquePort(Obj):
    """the port a placeholder is bound to, read without resolving it: every observation is arbitrary"""
    cls = "WiringPortRef(bound)"

    def __init__(self, k):
        Obj.__init__(self, name="bound_port")
        self.k = k

    def m_is_peered_source(self, I, a, n): return I.ctx.fresh("bound_is_peered", "bool")
    def m_is_delayed_source(self, I, a, n): return I.ctx.fresh("bound_is_delayed", "bool")
    def m_peered_node(self, I, a, n): return I.ctx.fresh("bound_node")


class OwnedSet(Obj):
    cls = "std::unordered_set<const WiringInstance*>"

    def __init__(self, k):
        Obj.__init__(self, name="owned")
        self.k = k

    def m_contains(self, I, a, n):
        return self.k.owned[I.ctx.rv(a[0])]


class CollectProducers(Kernel):
    tu = TU
    name = "graph_wiring.cpp:collect_producers"
    fn_name = "collect_producers"
    filter = "collect_producers"
    property_ids = ("C01", "C06")
    scope = {"lo": 0, "hi": 3}
    title = "collect_producers: an input contributes a rank edge from every owned producer behind it, through delayed bindings and " \
            "structural sources"

    def setup(self, I):
        ctx = I.ctx
        self.kind = z3.Int("source_kind")           # 0 unbound, 1 peered, 2 structural, 3 boundary, 4 delayed, 5 null
        self.node = z3.Int("peered_node")
        self.nchildren = z3.Int("n_children")
        self.owned = z3.Array("owned", I_, B_)
        self.ckind, self.cnode = z3.Array("child_kind", I_, I_), z3.Array("child_node", I_, I_)
        ctx.assume(z3.And(self.kind >= 0, self.kind <= 5, self.nchildren >= 0))
        ctx.assume(z3.ForAll([qk], z3.And(self.ckind[qk] >= 0, self.ckind[qk] <= 5)))
        g = Obj("ghost", "cg")
        self.g = g
        ctx.store[(g.oid, "pushed")] = z3.IntVal(0)              # pushes for the root port itself
        ctx.store[(g.oid, "pushed_node")] = z3.IntVal(-9)
        ctx.store[(g.oid, "rec_resolved")] = z3.IntVal(0)
        ctx.store[(g.oid, "crec")] = z3.K(I_, z3.IntVal(0))      # recursive calls per child
        ctx.store[(g.oid, "cpush")] = z3.K(I_, z3.IntVal(0))     # inline pushes while visiting child j
        ctx.store[(g.oid, "cpush_node")] = z3.K(I_, z3.IntVal(-9))
        self.producers = Obj("std::vector<const WiringInstance*>", "producers")
        k = self

        def push(I_2, a, n):
            c = I_2.ctx
            try:
                j = k.range_pos(I_2)
            except Exception:
                j = None
            if j is None:
                c.write(Loc((g.oid, "pushed")), c.store[(g.oid, "pushed")] + 1)
                c.write(Loc((g.oid, "pushed_node")), c.rv(a[0]))
            else:
                c.write(Loc((g.oid, "cpush")), z3.Store(c.store[(g.oid, "cpush")], j, c.store[(g.oid, "cpush")][j] + 1))
                c.write(Loc((g.oid, "cpush_node")), z3.Store(c.store[(g.oid, "cpush_node")], j, c.rv(a[0])))
            return VOID
        self.producers.m_push_back = push
        self.owned_set = OwnedSet(self)
        return None, {"source": CPPort(self, "root"), "producers": self.producers, "owned": self.owned_set}

    def function_handler(self, name, node, callee_node):
        g = self.g
        if name == "resolve_delayed_source":
            def res(I, a, n):
                p = I.ctx.rv(a[0])
                if not isinstance(p, CPPort) or not (isinstance(p.ident, str) and p.ident == "root"):
                    raise Gap("resolve_delayed_source of something that is not this source")
                return CPPort(self, "resolved")
            return res
        if name == "collect_producers":
            def rec(I, a, n):
                c = I.ctx
                p = c.rv(a[0])
                ok = c.rv(a[1]) is self.producers and c.rv(a[2]) is self.owned_set
                c.oblige("callee-pre.recursive-call-on-the-same-accumulator-and-owned-set", z3.BoolVal(ok), kind="callee-pre")
                if isinstance(p, CPPort) and isinstance(p.ident, str) and p.ident == "resolved":
                    c.write(Loc((g.oid, "rec_resolved")), c.store[(g.oid, "rec_resolved")] + 1)
                elif isinstance(p, CPPort) and isinstance(p.ident, z3.ExprRef):
                    c.write(Loc((g.oid, "crec")), z3.Store(c.store[(g.oid, "crec")], p.ident, c.store[(g.oid, "crec")][p.ident] + 1))
                else:
                    raise Gap("recursive collect_producers on an untracked port")
                return VOID
            return rec
        return Kernel.function_handler(self, name, node, callee_node)

    def child_ok(self, ctx, j):
        """child j contributed exactly what collect_producers(child j) contributes"""
        g = lambda nm: ctx.store[(self.g.oid, nm)]
        ck, cn = self.ckind[j], self.cnode[j]
        by_recursion = z3.And(g("crec")[j] == 1, g("cpush")[j] == 0)
        inline_peered = z3.And(g("crec")[j] == 0, ck == 1, g("cpush")[j] == z3.If(self.owned[cn], 1, 0),
                               z3.Implies(self.owned[cn], g("cpush_node")[j] == cn))
        inline_nothing = z3.And(g("crec")[j] == 0, z3.Or(ck == 3, ck == 5), g("cpush")[j] == 0)
        return z3.Or(by_recursion, inline_peered, inline_nothing)

    def inv(self, I, ctx):
        pos = self.range_pos(I)
        g = lambda nm: ctx.store[(self.g.oid, nm)]
        yield "children-below-the-cursor-contributed-their-producers,the-rest-untouched", z3.And(
            pos >= 0, pos <= self.nchildren, g("pushed") == 0, g("rec_resolved") == 0,
            z3.ForAll([qk], z3.And(z3.Implies(z3.And(qk >= 0, qk < pos), self.child_ok(ctx, qk)),
                                   z3.Implies(z3.Or(qk < 0, qk >= pos), z3.And(g("crec")[qk] == 0, g("cpush")[qk] == 0)))))

    def frame(self, I, ctx):
        return [Loc((self.g.oid, nm)) for nm in ("crec", "cpush", "cpush_node")]

    @property
    def loops(self):
        return {0: LoopSpec(self.inv, self.frame)}

    def post(self, I, ret):
        ctx = I.ctx
        g = lambda nm: ctx.store[(self.g.oid, nm)]
        k = self.kind
        none_children = z3.ForAll([qk], z3.And(g("crec")[qk] == 0, g("cpush")[qk] == 0))
        ctx.oblige("ensures.delayed-source:the-producers-are-those-of-the-resolved-source[C01 never before any node whose output it reads, "
                   "also through a delayed binding]", z3.Implies(k == 4, z3.And(g("rec_resolved") == 1, g("pushed") == 0, none_children)),
                   kind="post-normal")
        ctx.oblige("ensures.peered-source:its-node-is-a-producer-iff-owned[C01]", z3.Implies(k == 1, z3.And(
            g("pushed") == z3.If(self.owned[self.node], 1, 0), z3.Implies(self.owned[self.node], g("pushed_node") == self.node),
            g("rec_resolved") == 0, none_children)), kind="post-normal")
        ctx.oblige("ensures.structural-source:every-child-contributes-its-producers[C01 through a collection or bundle path, whatever "
                   "the child is: peered, nested structural, or a delayed binding]",
                   z3.Implies(k == 2, z3.And(g("pushed") == 0, z3.ForAll([qk], z3.Implies(z3.And(qk >= 0, qk < self.nchildren),
                                                                                          self.child_ok(ctx, qk))))), kind="post-normal")
        ctx.oblige("ensures.null-or-boundary-source:no-producer", z3.Implies(z3.Or(k == 3, k == 5), z3.And(
            g("pushed") == 0, g("rec_resolved") == 0, none_children)), kind="post-normal")

    def post_exc(self, I, exc):
        I.ctx.oblige("raises.logic_error-only-for-an-unbound-source", z3.And(z3.BoolVal(exc.cls == "std::logic_error"),
                                                                             z3.Or(self.kind == 0, self.kind == 4)), kind="post-exceptional")


KERNELS += [CollectProducers]


# ------------------------------------------------------------------ NodeRuntimeRegistry::schema_equivalent (node.cpp)
#
# Below the wiring-level interning, runtime node *types* are canonicalised: make_type answers a request with an already
# registered type when schema_equivalent says the two descriptors are the same.  A descriptor member left out of that
# comparison lets two wirings that differ only in it run with whichever descriptor was registered first, so statement
# order shows in the outputs (C06).  The member list is read from the struct each run; `header` is the intern identity
# that the registry itself assigns and is the one member not compared.

TU_NODE = "src/hgraph/runtime/node.cpp"
SCHEMA_IDENTITY_MEMBERS = ("header",)


class NameView(Obj):
    """std::string_view built from display_name (or from the literal "")"""
    cls = "std::string_view"

    def __init__(self, k, side):
        Obj.__init__(self, name="name_view")
        self.k, self.side = k, side          # side None: the empty literal

    def op(self, I, op, rest, n, a0):
        if op not in ("==", "!="):
            return NotImplemented
        o = I.ctx.rv(rest[0])
        if not isinstance(o, NameView):
            raise Gap("name compared with %r" % (o,))
        k = self.k
        if self.side is None and o.side is None:
            e = z3.BoolVal(True)
        elif self.side is None or o.side is None:
            e = k.name_empty[self.side or o.side]
        elif self.side == o.side:
            e = z3.BoolVal(True)
        else:
            e = k.name_eq
        return e if op == "==" else z3.Not(e)


class MetaField(FieldTok):
    custom_binop = True

    def binop(self, I, op, other):
        if op not in ("==", "!="):
            raise Gap("operator %s on descriptor member %s" % (op, self.fname))
        null = other is None or (isinstance(other, Ptr) and other.target is None) or \
            (z3.is_expr(other) and z3.is_int_value(other) and other.as_long() == 0)
        if null:
            if self.fname != "display_name":
                raise Gap("descriptor member %s compared with nullptr" % self.fname)
            e = self.k.name_null[self.side]
        else:
            e = self.eq(other)
        return e if op == "==" else z3.Not(e)

    def rbinop(self, I, op, other):
        return self.binop(I, op, other)


class MetaObj(Obj):
    cls = "NodeTypeMetaData"

    def __init__(self, k, side):
        Obj.__init__(self, name="meta_" + side)
        self.k, self.side = k, side

    def member(self, ctx, name, node):
        return MetaField(self.k, name, self.side)


class SchemaEquivalent(Kernel):
    name = "node.cpp:NodeRuntimeRegistry::schema_equivalent"
    tu = TU_NODE
    filter = "NodeRuntimeRegistry"
    cls = "NodeRuntimeRegistry"
    fn_name = "schema_equivalent"
    property_ids = ("C06",)
    scope = {"lo": 0, "hi": 2}
    title = "schema_equivalent: two runtime node descriptors share one canonical type only when every member agrees " \
            "(member list read from the struct each run)"
    extra_dumps = ((TU_NODE, "NodeTypeMetaData"),)

    def locate(self, dumps):
        fn = Kernel.locate(self, dumps)
        recs = extract.find_record(dumps[(TU_NODE, "NodeTypeMetaData")], "NodeTypeMetaData")
        if not recs:
            raise Gap("record NodeTypeMetaData not found")
        self.fields = [c["name"] for c in recs[0].get("inner", []) if c.get("kind") == "FieldDecl"]
        return fn

    def setup(self, I):
        ctx = I.ctx
        self.eq = {f: z3.Bool("eq_" + f) for f in self.fields}
        self.has = {"lhs": z3.Bool("has_lhs"), "rhs": z3.Bool("has_rhs")}
        self.scalars_equal = z3.Bool("unused")
        self.name_null = {"lhs": z3.Bool("name_null_lhs"), "rhs": z3.Bool("name_null_rhs")}
        self.name_empty = {"lhs": z3.Bool("name_empty_lhs"), "rhs": z3.Bool("name_empty_rhs")}
        self.name_eq = z3.Bool("name_chars_equal")
        # two non-null names: equal characters => equally empty; both empty => equal
        ctx.assume(z3.Implies(self.name_eq, self.name_empty["lhs"] == self.name_empty["rhs"]))
        ctx.assume(z3.Implies(z3.And(self.name_empty["lhs"], self.name_empty["rhs"]), self.name_eq))
        return None, {"lhs": MetaObj(self, "lhs"), "rhs": MetaObj(self, "rhs")}

    def ctor_handler(self, qt, node):
        if "string_view" in qt:
            def mk(I, args, n):
                v = I.ctx.rv(args[0])
                if isinstance(v, NameView):
                    return v
                if isinstance(v, MetaField) and v.fname == "display_name":
                    return NameView(self, v.side)
                if z3.is_expr(v) and z3.is_int_value(v) and v.as_long() == self.string_id(""):
                    return NameView(self, None)
                raise Gap("string_view of %r" % (v,))
            return mk
        return Kernel.ctor_handler(self, qt, node)

    def function_handler(self, name, node, callee_node):
        if name == "endpoint_schema_equivalent":
            def f(I, a, n):
                l, r = I.ctx.rv(a[0]), I.ctx.rv(a[1])
                if not (isinstance(l, FieldTok) and isinstance(r, FieldTok) and l.fname == r.fname and l.side != r.side):
                    raise Gap("endpoint_schema_equivalent of %r, %r" % (l, r))
                return self.eq[l.fname]          # callee contract: EndpointSchemaEquivalent below
            return f
        return Kernel.function_handler(self, name, node, callee_node)

    def post(self, I, ret):
        ctx = I.ctx
        if "display_name" not in self.eq:
            raise Gap("NodeTypeMetaData has no display_name member any more")
        nl, nr = self.name_null["lhs"], self.name_null["rhs"]
        names = z3.If(nl, z3.If(nr, True, self.name_empty["rhs"]), z3.If(nr, self.name_empty["lhs"], self.name_eq))
        others = [self.eq[f] for f in self.fields if f != "display_name" and f not in SCHEMA_IDENTITY_MEMBERS]
        ctx.oblige("ensures.equivalent=>every-descriptor-member-agrees[C06 nodes that differ in node type or arguments always remain distinct]",
                   z3.Implies(ret, z3.And(names, *others)), kind="post-normal")
        ctx.oblige("ensures.every-member-agrees=>equivalent[C06 equal descriptors share one canonical type]",
                   z3.Implies(z3.And(names, *others), ret), kind="post-normal")


class EndpointObj(Obj):
    cls = "TSEndpointSchema"

    def __init__(self, k, side, child=None):
        Obj.__init__(self, name="endpoint_" + side)
        self.k, self.side, self.child = k, side, child

    def _top(self):
        if self.child is not None:
            raise Gap("attribute of a child endpoint read outside the recursive call")

    def m_empty(self, I, a, n): self._top(); return self.k.empty[self.side]
    def m_role(self, I, a, n): self._top(); return self.k.role[self.side]
    def m_schema(self, I, a, n): self._top(); return self.k.schema[self.side]
    def m_child_count(self, I, a, n): self._top(); return self.k.count[self.side]

    def m_child(self, I, a, n):
        self._top()
        return EndpointObj(self.k, self.side, child=I.ctx.rv(a[0]))


class EndpointSchemaEquivalent(Kernel):
    name = "node.cpp:NodeRuntimeRegistry::endpoint_schema_equivalent"
    tu = TU_NODE
    filter = "NodeRuntimeRegistry"
    cls = "NodeRuntimeRegistry"
    fn_name = "endpoint_schema_equivalent"
    property_ids = ("C06",)
    scope = {"lo": 0, "hi": 3}
    title = "endpoint_schema_equivalent: role, schema and every child of two output endpoint descriptors agree (structural induction)"

    def setup(self, I):
        ctx = I.ctx
        self.empty = {s: z3.Bool("empty_" + s) for s in ("lhs", "rhs")}
        self.role = {s: z3.Int("role_" + s) for s in ("lhs", "rhs")}
        self.schema = {s: z3.Int("schema_" + s) for s in ("lhs", "rhs")}
        self.count = {s: z3.Int("count_" + s) for s in ("lhs", "rhs")}
        self.child_equiv = z3.Array("child_equivalent", I_, B_)     # induction hypothesis: the recursive call's answer
        ctx.assume(z3.And(self.count["lhs"] >= 0, self.count["rhs"] >= 0))
        return None, {"lhs": EndpointObj(self, "lhs"), "rhs": EndpointObj(self, "rhs")}

    def function_handler(self, name, node, callee_node):
        if name == "endpoint_schema_equivalent":
            def rec(I, a, n):
                l, r = I.ctx.rv(a[0]), I.ctx.rv(a[1])
                ok = isinstance(l, EndpointObj) and isinstance(r, EndpointObj) and l.child is not None and r.child is not None \
                    and l.side != r.side
                if not ok:
                    raise Gap("recursive call on something that is not a pair of child endpoints")
                I.ctx.oblige("callee-pre.children-compared-pairwise-at-the-same-index", l.child == r.child, kind="callee-pre")
                return self.child_equiv[l.child]
            return rec
        return Kernel.function_handler(self, name, node, callee_node)

    def inv(self, I, ctx):
        idx = ctx.rv(self.local(I, "index"))
        yield "children-below-the-cursor-are-equivalent", z3.And(
            idx >= 0, idx <= self.count["lhs"],
            z3.ForAll([qk], z3.Implies(z3.And(qk >= 0, qk < idx), self.child_equiv[qk])))

    @property
    def loops(self):
        return {0: LoopSpec(self.inv, lambda I, ctx: [])}

    def post(self, I, ret):
        ctx = I.ctx
        el, er = self.empty["lhs"], self.empty["rhs"]
        spec = z3.If(z3.Or(el, er), el == er, z3.And(
            self.role["lhs"] == self.role["rhs"], self.schema["lhs"] == self.schema["rhs"], self.count["lhs"] == self.count["rhs"],
            z3.ForAll([qk], z3.Implies(z3.And(qk >= 0, qk < self.count["lhs"]), self.child_equiv[qk]))))
        ctx.oblige("ensures.result<=>role,schema,child-count-and-every-child-agree[C06]", ret == spec, kind="post-normal")


KERNELS += [SchemaEquivalent, EndpointSchemaEquivalent]
