"""C11 -- reduce_node.cpp aggregate-tree arithmetic: internal_count, resolve_aggregate, root_aggregate.

The implicit tree: leaf_capacity = C (a power of two), internal heap positions 0..C-2, children of i at 2i+1/2i+2,
live leaves are the dense prefix [0, live).  A position at depth d (level_start = 2^d <= position + 1 < 2^(d+1)) spans
span = C / 2^d leaves starting at first = (position + 1 - 2^d) * span.
resolve_aggregate is verified once per span exponent e (span = 2^e, e = 0..63): everything else (position, level,
capacity = span * level_start, live) stays symbolic, and the descent loop, which halves the concrete span, is unrolled
with an unwinding assertion -- so the 64 cases together are a complete proof for 64-bit sizes, not a bounded one.
"""
import z3

from cxxvc.kernel import Kernel, LoopSpec, Lemma
from cxxvc.interp import Obj, Ptr, Loc, Opt, Gap, MAX_DT, VOID
from cxxvc import extract
from cxxvc.native import NativeCheck

TU = "src/hgraph/runtime/reduce_node.cpp"
EMPTY, LEAF, NODE = 0, 1, 2


class Agg(Obj):
    cls = "Aggregate"

    def __init__(self, kind, index):
        Obj.__init__(self, name="aggregate")
        self.kind, self.index = kind, index

    def member(self, ctx, name, node):
        if name == "kind":
            return self.kind
        if name == "index":
            return self.index
        raise Gap("Aggregate member %s" % name)


class SizeOnly(Obj):
    cls = "container"

    def __init__(self, n, name):
        Obj.__init__(self, name=name)
        self.n = n

    def m_size(self, I, args, n):
        return self.n

    def m_empty(self, I, args, n):
        return self.n == 0


class ReduceKernel(Kernel):
    tu = TU
    property_ids = ("C11",)
    scope = {"lo": 0, "hi": 8}
    inline = ("internal_count",)

    def base(self, I):
        ctx = I.ctx
        st = Obj("ReduceNodeStorage", "storage")
        self.st = st
        self.cap = z3.Int("leaf_capacity")
        self.live = z3.Int("live")
        self.ncomb = z3.Int("n_combiners")
        ctx.store[(st.oid, "leaf_capacity")] = self.cap
        ctx.store[(st.oid, "dense_to_key")] = SizeOnly(self.live, "dense_to_key")
        ctx.store[(st.oid, "combiners")] = SizeOnly(self.ncomb, "combiners")
        ctx.assume(z3.And(self.cap >= 0, self.live >= 0, self.live <= self.cap, self.ncomb >= 0))

    def enum_const(self, I, ref):
        return z3.IntVal({"Empty": EMPTY, "Leaf": LEAF, "Node": NODE}[ref.get("name")])

    def ctor_handler(self, qt, node):
        if qt.endswith("Aggregate"):
            def mk(I, args, n):
                a = [I.ctx.rv(x) for x in args]
                if len(a) == 1 and isinstance(a[0], Agg):
                    return a[0]
                return Agg(a[0], a[1])
            return mk
        return Kernel.ctor_handler(self, qt, node)

    def function_handler(self, name, node, callee_node):
        h = getattr(self, "f_" + name, None)
        if h is not None:
            return h
        return Kernel.function_handler(self, name, node, callee_node)


def make_resolve(e):
    SPAN = 2 ** e

    class ResolveAggregate(ReduceKernel):
        name = "reduce_node.cpp:resolve_aggregate[span=2^%d]" % e
        fn_name = "resolve_aggregate"
        filter = "resolve_aggregate"
        title = "resolve_aggregate for positions whose subtree spans 2^%d leaves" % e
        extra_dumps = ((TU, "internal_count"),)

        def locate(self, dumps):
            fn = Kernel.locate(self, dumps)
            self.index(dumps[(TU, "internal_count")])
            return fn

        def setup(self, I):
            ctx = I.ctx
            self.base(I)
            self.pos = z3.Int("position")
            self.p = z3.Int("level_start")  # the power of two found by bit_floor
            ctx.assume(z3.And(self.pos >= 0, self.p >= 1, self.p <= self.pos + 1, self.pos + 1 < 2 * self.p))
            # an internal position whose level has span 2^e:  capacity = span * level_start
            ctx.assume(z3.And(self.cap >= 2, self.pos < self.cap - 1, self.cap == SPAN * self.p))
            self.depth_tok = z3.Int("depth_token")
            ctx.assume(self.depth_tok >= 0)
            return None, {"storage": self.st, "position": self.pos}

        def f_bit_floor(self, I, args, n):
            x = I.ctx.rv(args[0])
            I.ctx.oblige("model.bit_floor-argument-is-position+1", x == self.pos + 1, kind="callee-pre")
            return self.p

        def f_bit_width(self, I, args, n):
            x = I.ctx.rv(args[0])
            I.ctx.oblige("model.bit_width-of-the-level-start", x == self.p, kind="callee-pre")
            return self.depth_tok + 1

        def bitop(self, I, op, a, b, n):
            # leaf_capacity >> depth, with depth = bit_width(level_start) - 1 and level_start a power of two,
            # is leaf_capacity / level_start (= the concrete span of this case)
            ctx = I.ctx
            if op != ">>":
                raise Gap("bit operator %s" % op)
            ctx.oblige("model.shift-is-capacity>>depth", z3.And(a == self.cap, b == self.depth_tok), kind="callee-pre")
            return z3.IntVal(SPAN)

        loops = {0: LoopSpec(unroll=e + 1, unwind_assert=True)}

        def post(self, I, ret):
            ctx = I.ctx
            if not isinstance(ret, Agg):
                raise Gap("resolve_aggregate returned %r" % (ret,))
            first = (self.pos + 1 - self.p) * SPAN
            live, kind, idx = self.live, ret.kind, ret.index
            lis = z3.If(live - first < SPAN, live - first, z3.IntVal(SPAN))   # live leaves in the subtree
            ctx.oblige("ensures.Empty<=>no-live-leaf-below[C11 exactly the currently valid elements]",
                       (kind == EMPTY) == (first >= live), kind="post-normal")
            ctx.oblige("ensures.Leaf<=>exactly-one-live-leaf-below,and-it-is-the-first[C11]",
                       z3.And((kind == LEAF) == z3.And(first < live, lis == 1), z3.Implies(kind == LEAF, idx == first)),
                       kind="post-normal")
            spine = z3.Or(*[z3.And(idx + 1 == (self.pos + 1) * (2 ** k), lis <= 2 ** (e - k), 2 * lis > 2 ** (e - k))
                            for k in range(0, e + 1)])
            ctx.oblige("ensures.Node=>left-spine-descendant-covering-the-same-live-leaves,minimal[C11 independent of the "
                       "internal shape: the aggregate of the smallest subtree holding them]",
                       z3.Implies(kind == NODE, z3.And(first < live, lis >= 2, spine)), kind="post-normal")
            ctx.oblige("ensures.kind-is-one-of-three", z3.Or(kind == EMPTY, kind == LEAF, kind == NODE), kind="post-normal")

    ResolveAggregate.__name__ = "ResolveAggregate_e%d" % e
    return ResolveAggregate


class ResolveLeafLevel(ReduceKernel):
    name = "reduce_node.cpp:resolve_aggregate[leaf positions]"
    fn_name = "resolve_aggregate"
    filter = "resolve_aggregate"
    title = "resolve_aggregate for leaf positions (position >= internal_count)"
    extra_dumps = ((TU, "internal_count"),)
    loops = {0: LoopSpec(unroll=0, unwind_assert=True)}

    def locate(self, dumps):
        fn = Kernel.locate(self, dumps)
        self.index(dumps[(TU, "internal_count")])
        return fn

    def setup(self, I):
        self.base(I)
        self.pos = z3.Int("position")
        internals = z3.If(self.cap > 1, self.cap - 1, 0)
        I.ctx.assume(z3.And(self.pos >= internals))
        return None, {"storage": self.st, "position": self.pos}

    def post(self, I, ret):
        ctx = I.ctx
        internals = z3.If(self.cap > 1, self.cap - 1, 0)
        leaf = self.pos - internals
        ctx.oblige("ensures.leaf-position:Leaf(l)-iff-l-is-live-else-Empty[C11]",
                   z3.If(leaf < self.live, z3.And(ret.kind == LEAF, ret.index == leaf), ret.kind == EMPTY), kind="post-normal")


class RootAggregate(ReduceKernel):
    name = "reduce_node.cpp:root_aggregate"
    fn_name = "root_aggregate"
    filter = "root_aggregate"
    title = "root_aggregate: zero rule by live-value count"

    def setup(self, I):
        ctx = I.ctx
        self.base(I)
        cx = Obj("ReduceNodeContext", "context")
        sp = Obj("ReduceNodeSpec", "spec")
        self.has_zero = z3.Bool("has_zero")
        ctx.store[(sp.oid, "has_zero")] = self.has_zero
        ctx.store[(cx.oid, "spec")] = sp
        self.res_kind, self.res_index = z3.Int("resolved_kind"), z3.Int("resolved_index")
        self.resolved_calls = []
        return None, {"context": cx, "storage": self.st}

    def f_resolve_aggregate(self, I, args, n):
        self.resolved_calls.append(I.ctx.rv(args[1]))
        return Agg(self.res_kind, self.res_index)

    def post(self, I, ret):
        ctx = I.ctx
        live = self.live
        zero_case = z3.And(self.has_zero, live == 1, self.ncomb != 0)
        ctx.oblige("ensures.empty-collection=>Empty[C11 invalid / the zero for an empty collection]",
                   z3.Implies(live == 0, ret.kind == EMPTY), kind="post-normal")
        ctx.oblige("ensures.single-element-with-a-zero=>the-root-combiner(combine(value,zero))[C11]",
                   z3.Implies(zero_case, z3.And(ret.kind == NODE, ret.index == 0)), kind="post-normal")
        ctx.oblige("ensures.otherwise=>the-tree-aggregate-of-the-root[C11 the zero is never an operand once two or more are live]",
                   z3.Implies(z3.And(live != 0, z3.Not(zero_case)), z3.And(
                       ret.kind == self.res_kind, ret.index == self.res_index,
                       z3.BoolVal(len(self.resolved_calls) == 1) if self.resolved_calls else z3.BoolVal(False),
                       (self.resolved_calls[0] == 0) if self.resolved_calls else z3.BoolVal(False))), kind="post-normal")


class InternalCount(ReduceKernel):
    name = "reduce_node.cpp:internal_count"
    fn_name = "internal_count"
    filter = "internal_count"
    title = "internal_count == leaf_capacity - 1 (0 for capacity <= 1)"
    inline = ()

    def setup(self, I):
        self.base(I)
        return None, {"storage": self.st}

    def post(self, I, ret):
        I.ctx.oblige("ensures.result", ret == z3.If(self.cap > 1, self.cap - 1, 0), kind="post-normal")


KERNELS = [InternalCount, ResolveLeafLevel, RootAggregate] + [make_resolve(e) for e in range(1, 64)]


# ------------------------------------------------------------------ value-tick and removal paths (which combiners re-run)

I_ = z3.IntSort()
B_ = z3.BoolSort()
qd, qp = z3.Ints("qd qp")


class Bitmap(Obj):
    """SlotBitmap as a set of positions (Array Int Bool); set(p) needs p < size (slot_bitmap.h asserts it)"""
    cls = "SlotBitmap"

    def __init__(self, k):
        Obj.__init__(self, name="positions")
        self.k = k

    def m_set(self, I, args, n):
        ctx = I.ctx
        p = ctx.rv(args[0])
        ctx.oblige("callee-pre.SlotBitmap::set:position-in-range", z3.And(p >= 0, p < self.k.ncomb), kind="callee-pre")
        ctx.write(Loc((self.oid, "bits")), z3.Store(ctx.store[(self.oid, "bits")], p, True))
        return VOID


class CombinerVec(Obj):
    """std::vector<CombinerEntry*>: only null-ness matters here"""
    cls = "std::vector<CombinerEntry*>"

    def __init__(self, k):
        Obj.__init__(self, name="combiners")
        self.k = k

    def m_size(self, I, args, n):
        return self.k.ncomb

    def op(self, I, op, rest, n, a0):
        if op == "[]":
            i = I.ctx.rv(rest[0])
            I.ctx.oblige("vector-index-in-range@%s" % extract.line_of(n), z3.And(i >= 0, i < self.k.ncomb), kind="bounds")
            return Ptr(Obj("CombinerEntry", "combiner"), z3.Not(self.k.live_comb[i]))
        return NotImplemented


class AppendLeafPath(ReduceKernel):
    name = "reduce_node.cpp:append_leaf_path"
    fn_name = "append_leaf_path"
    filter = "append_leaf_path"
    title = "append_leaf_path: every live combiner on the path from a ticked leaf to the root is marked for evaluation"
    inline = ()

    def f_internal_count(self, I, args, n):
        """callee contract, proved by the InternalCount kernel"""
        return z3.If(self.cap > 1, self.cap - 1, z3.IntVal(0))

    def setup(self, I):
        ctx = I.ctx
        self.base(I)
        self.leaf = z3.Int("leaf")
        ctx.assume(z3.And(self.leaf >= 0, self.leaf < self.live, self.cap >= 1))
        self.live_comb = z3.Array("combiner_present", I_, B_)
        ctx.store[(self.st.oid, "combiners")] = CombinerVec(self)
        self.bm = Bitmap(self)
        self.bits0 = z3.Array("positions0", I_, B_)
        ctx.store[(self.bm.oid, "bits")] = self.bits0
        # the implicit heap: depth(p), and anc(d) = the ancestor of the start position at depth d
        self.depth = z3.Array("depth", I_, I_)
        self.anc = z3.Array("anc", I_, I_)
        self.start = z3.If(self.cap > 1, self.cap - 1, 0) + self.leaf
        dp, an = self.depth, self.anc
        ctx.assume(dp[0] == 0)
        ctx.assume(z3.ForAll([qp], z3.Implies(qp > 0, z3.And(dp[qp] == dp[(qp - 1) / 2] + 1, dp[qp] >= 1))))
        ctx.assume(an[dp[self.start]] == self.start)
        ctx.assume(z3.ForAll([qd], z3.Implies(z3.And(qd >= 0, qd < dp[self.start]), z3.And(
            an[qd] == (an[qd + 1] - 1) / 2, an[qd + 1] > 0, dp[an[qd]] == qd))))
        ctx.assume(dp[self.start] >= 0)
        return None, {"storage": self.st, "leaf": self.leaf, "positions": self.bm}

    def marked_from(self, ctx, lo):
        bits = ctx.store[(self.bm.oid, "bits")]
        an, dp = self.anc, self.depth
        return z3.ForAll([qd], z3.Implies(z3.And(qd >= lo, qd < dp[self.start], an[qd] < self.ncomb, self.live_comb[an[qd]]),
                                          bits[an[qd]]))

    def inv(self, I, ctx):
        p = self.local(I, "position")
        bits = ctx.store[(self.bm.oid, "bits")]
        yield "position-on-the-leaf's-path", z3.And(p >= 0, self.anc[self.depth[p]] == p, self.depth[p] <= self.depth[self.start],
                                                   self.depth[p] >= 0)
        yield "live-combiners-between-the-leaf-and-the-cursor-marked[C11]", self.marked_from(ctx, self.depth[p])
        yield "only-marks-added", z3.ForAll([qp], z3.Implies(self.bits0[qp], bits[qp]))
        yield "only-live-combiners-marked", z3.ForAll([qp], z3.Implies(z3.And(bits[qp], z3.Not(self.bits0[qp])),
                                                                       z3.And(qp >= 0, qp < self.ncomb, self.live_comb[qp])))

    def frame(self, I, ctx):
        return [Loc((self.bm.oid, "bits"))]

    @property
    def loops(self):
        return {0: LoopSpec(self.inv, self.frame)}

    def post(self, I, ret):
        ctx = I.ctx
        bits = ctx.store[(self.bm.oid, "bits")]
        ctx.oblige("ensures.every-live-combiner-above-the-ticked-leaf-is-marked-up-to-the-root[C11 the fold reflects a tick of "
                   "any valid element]", self.marked_from(ctx, z3.IntVal(0)), kind="post-normal")
        ctx.oblige("ensures.marks-only-added,only-live-combiners", z3.ForAll([qp], z3.And(
            z3.Implies(self.bits0[qp], bits[qp]),
            z3.Implies(z3.And(bits[qp], z3.Not(self.bits0[qp])), z3.And(qp >= 0, qp < self.ncomb, self.live_comb[qp])))),
            kind="post-normal")


class PushVec(Obj):
    """std::vector<size_t> used as an append-only list: len, data"""
    cls = "std::vector<size_t>"

    def __init__(self, ctx, name):
        Obj.__init__(self, name=name)
        self.len0 = z3.Int(name + "_len0")
        ctx.assume(self.len0 >= 0)
        ctx.store[(self.oid, "len")] = self.len0
        ctx.store[(self.oid, "data")] = z3.Array(name + "_data0", I_, I_)
        self.data0 = ctx.store[(self.oid, "data")]

    def m_push_back(self, I, args, n):
        ctx = I.ctx
        L = ctx.store[(self.oid, "len")]
        ctx.write(Loc((self.oid, "data")), z3.Store(ctx.store[(self.oid, "data")], L, ctx.rv(args[0])))
        ctx.write(Loc((self.oid, "len")), L + 1)
        return VOID


class RecordRemovedLeafPaths(ReduceKernel):
    name = "reduce_node.cpp:record_removed_leaf_paths"
    fn_name = "record_removed_leaf_paths"
    filter = "record_removed_leaf_paths"
    title = "record_removed_leaf_paths: a swap-removal re-binds the vacated position and the position the tail leaf came from"

    def setup(self, I):
        ctx = I.ctx
        self.base(I)
        self.leaf = z3.Int("leaf")
        ctx.assume(z3.And(self.leaf >= 0, self.leaf < self.live))
        self.sl = PushVec(ctx, "structural_leaves")
        ctx.store[(self.st.oid, "structural_leaves")] = self.sl
        return None, {"storage": self.st, "leaf": self.leaf}

    def post(self, I, ret):
        ctx = I.ctx
        L, D = ctx.store[(self.sl.oid, "len")], ctx.store[(self.sl.oid, "data")]
        last = self.live - 1
        has = lambda v: z3.Exists([qp], z3.And(qp >= self.sl.len0, qp < L, D[qp] == v))
        ctx.oblige("ensures.both-paths-recorded:the-vacated-leaf-and-the-moved-tail-leaf[C11 the fold is over exactly the "
                   "currently valid elements after a removal]", z3.And(has(self.leaf), has(last)), kind="post-normal")
        ctx.oblige("ensures.append-only,nothing-else-recorded", z3.And(
            L >= self.sl.len0, L <= self.sl.len0 + 2,
            z3.ForAll([qp], z3.Implies(z3.And(qp >= 0, qp < self.sl.len0), D[qp] == self.sl.data0[qp])),
            z3.ForAll([qp], z3.Implies(z3.And(qp >= self.sl.len0, qp < L), z3.Or(D[qp] == self.leaf, D[qp] == last)))),
            kind="post-normal")


KERNELS += [AppendLeafPath, RecordRemovedLeafPaths]



# ------------------------------------------------------------------ bounded stand-in: the published value is the fold
#
# The kernels above prove which aggregate each combiner input names and which paths are re-evaluated.  That the value the
# node publishes IS the fold - through rebuild_structure, bind_combiner_inputs, the zero source, the wiring-time fast paths
# for operator kernels over lists (higher_order_impl.h) - is ops-table and template heavy code outside the interpreter's
# reach; it is exercised here by running the real reduce_ over enumerated histories and reading its output every cycle.


class FoldEnumeration(NativeCheck):
    kid = "native:c11_fold"
    property_ids = ("C11",)
    source = "native/bounded/c11_fold.cpp"
    title = "at every cycle the reduce output equals the fold of the combiner over exactly the valid elements (zero rules included)"
    bound_text = ("bounded: every history of H cycles in which each key / list slot is left alone, set to a fresh power of two or "
                  "(dictionary) removed, replayed into replay -> reduce_(combiner, xs[, zero]) -> observer; the observer reads the "
                  "output (validity and value) at EVERY cycle; shapes TSD<Int,TS<Int>> (3 keys), fixed TSL of 4, dynamic TSL (3 "
                  "slots); combiners: a node combiner l+r+100 (every application visible) and the add_ operator kernel (lifted fast "
                  "path); with and without a zero.  quick: H=2 exhaustive for all 12 configurations (4 196 histories) + H=3 "
                  "exhaustive for TSD/node (2 x 19 683) and fixed TSL (4 x 4 096) + 1 500 random H=5 histories over 6 keys per "
                  "TSD / dynamic-TSL configuration (growth over the capacity boundaries 2, 4, 8); thorough: H=3 exhaustive for all "
                  "configurations, H=4 for fixed and dynamic TSL, 20 000 random H=6 per configuration")
    functions = ("reduce_node.cpp: rebuild_structure / bind_combiner_inputs / root_aggregate / reduce_evaluate / remove_leaf_at / "
                 "reconcile_leaf_state (whole node)", "higher_order_impl.h: reduce_ wiring incl. wire_lifted_reduce_tsl fast path",
                 "reduce_layout (fixed TSL tree)")

    def runs(self, tier):
        cfgs = [(sh, c, z) for sh in ("tsd", "tsl4", "tsldyn") for c in ("node", "add") for z in ("0", "1")]
        jobs = []
        if tier == "thorough":
            for sh, c, z in cfgs:
                if sh == "tsd":
                    jobs += [([sh, c, z, "3"], {"SHARD": "%d/2" % i}) for i in range(2)]
                else:
                    jobs += [([sh, c, z, "4"], {})]
                jobs += [([sh, c, z, "6", "20000", "11"], {})]
            return jobs
        for sh, c, z in cfgs:
            jobs.append(([sh, c, z, "2"], {}))
            if sh == "tsl4" or (sh == "tsd" and c == "node"):
                jobs.append(([sh, c, z, "3"], {}))
            if sh != "tsl4":
                jobs.append(([sh, c, z, "5", "1500", "7"], {}))
        return jobs


NATIVE = [FoldEnumeration]


# ---------------------------------------------------------------- reduce_reconcile (C11_r6_3): when the tree must be rebuilt
from cxxvc.models import Vec  # noqa: E402


class RHandle(Obj):
    """TSOutputHandle as an assignable value: its identity lives in the store"""
    cls = "TSOutputHandle"
    ctx = None

    def __init__(self, name, hid):
        Obj.__init__(self, name=name)
        RHandle.ctx.store[(self.oid, "hid")] = hid

    @property
    def hid(self):
        return RHandle.ctx.store[(self.oid, "hid")]

    def m_same_as(self, I, args, n):
        o = I.ctx.rv(args[0])
        if not isinstance(o, RHandle):
            raise Gap("same_as(%r)" % (o,))
        return self.hid == o.hid

    def op(self, I, op, rest, n, a0):
        if op == "=":
            o = I.ctx.rv(rest[0])
            if not isinstance(o, RHandle):
                raise Gap("handle assigned from %r" % (o,))
            I.ctx.write(Loc((self.oid, "hid")), o.hid)
            return self
        return NotImplemented


class RInput(Obj):
    cls = "TSInputView"

    def __init__(self, k, idx):
        Obj.__init__(self, name="input%s" % idx)
        self.k, self.idx = k, idx

    def m_indexed_child_at(self, I, args, n):
        i = I.ctx.rv(args[0])
        if not z3.is_int_value(i):
            raise Gap("indexed_child_at(symbolic)")
        return RInput(self.k, i.as_long())

    def m_bound_output(self, I, args, n):
        return RHandle("bound_output", self.k.src_new[self.idx])


class CollOps(Obj):
    cls = "ReduceCollectionOps"

    def __init__(self, k):
        Obj.__init__(self, name="collection_ops")
        self.k = k

    def m_available(self, I, args, n):
        return self.k.available

    def m_structure_modified(self, I, args, n):
        return self.k.structure_modified

    def m_reconcile(self, I, args, n):
        """opaque per-shape reconciliation (TSD / TSL variants): mirrors the collection's live elements into the dense leaf table
        (any new size) and says whether the leaf set changed"""
        ctx = I.ctx
        k = k_ = self.k
        ctx.write(Loc((k.g.oid, "reconciles")), ctx.store[(k.g.oid, "reconciles")] + 1)
        ctx.write(Loc((k.g.oid, "reconcile_full")), ctx.rv(args[2]))
        n1 = ctx.fresh("live_after_reconcile")
        ctx.assume(n1 >= 0)
        ctx.write(Loc((k_.dense.oid, "len")), n1)
        return k.reconcile_changed


class ReduceReconcile(Kernel):
    name = "reduce_node.cpp:reduce_reconcile"
    tu = TU
    filter = "reduce_reconcile"
    fn_name = "reduce_reconcile"
    property_ids = ("C11",)
    scope = {"lo": 0, "hi": 3}
    title = ("reduce_reconcile: the combiner tree is rebuilt when the leaf set changed, a source was re-pointed, or the ZERO source "
             "was re-pointed while the result involves the zero (no or one live element)")

    def setup(self, I):
        ctx = I.ctx
        RHandle.ctx = ctx
        g = Obj("ghost", "rg")
        self.g = g
        for nm, v in (("reconciles", z3.IntVal(0)), ("reconcile_full", z3.BoolVal(False)), ("rebuilds", z3.IntVal(0)),
                      ("rebuild_full", z3.BoolVal(False)), ("cleared", z3.BoolVal(False))):
            ctx.store[(g.oid, nm)] = v
        self.T = z3.Int("evaluation_time")
        self.src_new = {0: z3.Int("collection_source_now"), 1: z3.Int("zero_source_now")}
        self.coll_old, self.zero_old = z3.Int("collection_source_before"), z3.Int("zero_source_before")
        self.init0, self.primed0, self.published0 = z3.Bool("source_handles_initialised0"), z3.Bool("primed0"), z3.Bool("published0")
        self.has_zero = z3.Bool("has_zero")
        self.available, self.structure_modified = z3.Bool("collection_available"), z3.Bool("structure_modified")
        self.reconcile_changed = z3.Bool("reconcile_reports_a_change")
        self.n0 = z3.Int("live0")
        ctx.assume(self.n0 >= 0)
        st = Obj("ReduceNodeStorage", "storage")
        self.st = st
        self.dense = Vec(ctx, "dense_to_key", length=self.n0)
        ctx.store[(st.oid, "dense_to_key")] = self.dense
        ctx.store[(st.oid, "source_handles_initialised")] = self.init0
        ctx.store[(st.oid, "collection_source")] = RHandle("stored_collection_source", self.coll_old)
        ctx.store[(st.oid, "zero_source")] = RHandle("stored_zero_source", self.zero_old)
        ctx.store[(st.oid, "primed")] = self.primed0
        ctx.store[(st.oid, "published")] = self.published0
        ctx.store[(st.oid, "structural_leaves")] = Vec(ctx, "structural_leaves")
        ctx.store[(st.oid, "structural_positions")] = Vec(ctx, "structural_positions")
        spec = Obj("ReduceNodeSpec", "spec")
        ctx.store[(spec.oid, "has_zero")] = self.has_zero
        cx = Obj("ReduceNodeContext", "context")
        ctx.store[(cx.oid, "spec")] = spec
        co = CollOps(self)

        class Fn:
            def __init__(self, m):
                self.m = m

            def call(self, I, args, n):
                return self.m(I, args, n)
        for nm in ("available", "structure_modified", "reconcile"):
            ctx.store[(co.oid, nm)] = Fn(getattr(co, "m_" + nm))
        ctx.store[(cx.oid, "collection_ops")] = Ptr(co, z3.BoolVal(False))
        self.view = Obj("NodeView", "view")
        return None, {"view": self.view, "context": cx, "storage": st, "evaluation_time": self.T}

    def method_handler(self, obj, name, node):
        if obj is self.view and name == "input":
            return lambda I, o, a, n: RInput(self, "root")
        return Kernel.method_handler(self, obj, name, node)

    def ctor_handler(self, qt, node):
        if qt.endswith("TSOutputHandle"):
            def mk(I, args, n):
                a = [I.ctx.rv(x) for x in args]
                if len(a) == 1 and isinstance(a[0], RHandle):
                    return a[0]
                return RHandle("empty_handle", z3.IntVal(-1))
            return mk
        return Kernel.ctor_handler(self, qt, node)

    def default_value(self, I, qt, d):
        from cxxvc.interp import strip_type
        if strip_type(qt).endswith("TSOutputHandle"):
            return RHandle("empty_handle", z3.IntVal(-1))
        return Kernel.default_value(self, I, qt, d)

    def function_handler(self, name, node, callee_node):
        if name == "effective_output_handle":
            return lambda I, a, n: I.ctx.rv(a[0])
        if name == "clear_leaf_state":
            def clear(I, a, n):
                I.ctx.write(Loc((self.dense.oid, "len")), z3.IntVal(0))
                I.ctx.write(Loc((self.g.oid, "cleared")), z3.BoolVal(True))
                return VOID
            return clear
        if name == "rebuild_structure":
            def rebuild(I, a, n):
                ctx = I.ctx
                ctx.write(Loc((self.g.oid, "rebuilds")), ctx.store[(self.g.oid, "rebuilds")] + 1)
                ctx.write(Loc((self.g.oid, "rebuild_full")), ctx.rv(a[4]))
                return VOID
            return rebuild
        return Kernel.function_handler(self, name, node, callee_node)

    def post(self, I, ret):
        ctx = I.ctx
        g = self.g
        gg = lambda nm: ctx.store[(g.oid, nm)]
        live = self.dense.length(ctx)
        coll_rep = z3.And(self.init0, self.src_new[0] != self.coll_old)
        zero_rep = z3.And(self.has_zero, self.init0, self.src_new[1] != self.zero_old)
        reconciled = z3.And(self.available, z3.Or(z3.Not(self.primed0), coll_rep, self.structure_modified))
        cleared = z3.And(z3.Not(self.available), z3.Or(self.primed0, self.n0 != 0))
        structural = z3.Or(z3.And(reconciled, self.reconcile_changed), cleared)
        zero_matters = z3.And(zero_rep, live <= 1)
        rebuilt = gg("rebuilds") == 1
        ctx.oblige("ensures.a-re-pointed-zero-rebuilds-the-whole-tree-whenever-the-result-involves-the-zero[C11 the zero for an empty "
                   "collection, combine(value, zero) for a single element: the root combiner must be bound to the CURRENT zero]",
                   z3.Implies(zero_matters, z3.And(rebuilt, gg("rebuild_full"))), kind="post-normal")
        ctx.oblige("ensures.rebuilt-exactly-when-leaves-changed,a-source-was-re-pointed,the-zero-matters-or-nothing-was-published-yet[C11 at "
                   "every tick the result is the fold over exactly the currently valid elements]",
                   z3.And(gg("rebuilds") == z3.If(z3.Or(structural, coll_rep, zero_matters, z3.Not(self.published0)), 1, 0),
                          ret == rebuilt), kind="post-normal")
        ctx.oblige("ensures.full-rebuild-when-everything-may-have-moved", z3.Implies(rebuilt, gg("rebuild_full") == z3.Or(
            coll_rep, z3.Not(self.published0), z3.And(reconciled, z3.Not(self.primed0)), cleared, zero_matters)), kind="post-normal")
        ctx.oblige("ensures.leaf-table-reconciled-exactly-when-the-collection-may-have-changed[C11 exactly the currently valid elements]",
                   z3.And(gg("reconciles") == z3.If(reconciled, 1, 0),
                          z3.Implies(reconciled, gg("reconcile_full") == z3.Or(z3.Not(self.primed0), coll_rep)),
                          gg("cleared") == cleared), kind="post-normal")
        cs, zs = ctx.store[(self.st.oid, "collection_source")], ctx.store[(self.st.oid, "zero_source")]
        ctx.oblige("ensures.observed-sources-remembered", z3.And(cs.hid == self.src_new[0], z3.Implies(self.has_zero, zs.hid == self.src_new[1]),
                                                                ctx.store[(self.st.oid, "source_handles_initialised")]), kind="post-normal")


KERNELS += [ReduceReconcile]
