"""C11 -- reduce_node.cpp aggregate-tree arithmetic: internal_count, resolve_aggregate, root_aggregate.

The implicit tree: leaf_capacity = C (a power of two), internal heap positions 0..C-2, children of i at 2i+1/2i+2,
live leaves are the dense prefix [0, live).  A position at depth d (level_start = 2^d <= position + 1 < 2^(d+1)) spans
span = C / 2^d leaves starting at first = (position + 1 - 2^d) * span.
resolve_aggregate is verified once per span exponent e (span = 2^e, e = 0..63): everything else (position, level,
capacity = span * level_start, live) stays symbolic, and the descent loop, which halves the concrete span, is unrolled
with an unwinding assertion -- so the 64 cases together are a complete proof for 64-bit sizes, not a bounded one.
"""
import z3

from cxxvc.kernel import Kernel, LoopSpec, Lemma
from cxxvc.interp import Obj, Ptr, Loc, Opt, Gap, MAX_DT, VOID
from cxxvc import extract

TU = "src/hgraph/runtime/reduce_node.cpp"
EMPTY, LEAF, NODE = 0, 1, 2


class Agg(Obj):
    cls = "Aggregate"

    def __init__(self, kind, index):
        Obj.__init__(self, name="aggregate")
        self.kind, self.index = kind, index

    def member(self, ctx, name, node):
        if name == "kind":
            return self.kind
        if name == "index":
            return self.index
        raise Gap("Aggregate member %s" % name)


class SizeOnly(Obj):
    cls = "container"

    def __init__(self, n, name):
        Obj.__init__(self, name=name)
        self.n = n

    def m_size(self, I, args, n):
        return self.n

    def m_empty(self, I, args, n):
        return self.n == 0


class ReduceKernel(Kernel):
    tu = TU
    property_ids = ("C11",)
    scope = {"lo": 0, "hi": 8}
    inline = ("internal_count",)

    def base(self, I):
        ctx = I.ctx
        st = Obj("ReduceNodeStorage", "storage")
        self.st = st
        self.cap = z3.Int("leaf_capacity")
        self.live = z3.Int("live")
        self.ncomb = z3.Int("n_combiners")
        ctx.store[(st.oid, "leaf_capacity")] = self.cap
        ctx.store[(st.oid, "dense_to_key")] = SizeOnly(self.live, "dense_to_key")
        ctx.store[(st.oid, "combiners")] = SizeOnly(self.ncomb, "combiners")
        ctx.assume(z3.And(self.cap >= 0, self.live >= 0, self.live <= self.cap, self.ncomb >= 0))

    def enum_const(self, I, ref):
        return z3.IntVal({"Empty": EMPTY, "Leaf": LEAF, "Node": NODE}[ref.get("name")])

    def ctor_handler(self, qt, node):
        if qt.endswith("Aggregate"):
            def mk(I, args, n):
                a = [I.ctx.rv(x) for x in args]
                if len(a) == 1 and isinstance(a[0], Agg):
                    return a[0]
                return Agg(a[0], a[1])
            return mk
        return Kernel.ctor_handler(self, qt, node)

    def function_handler(self, name, node, callee_node):
        h = getattr(self, "f_" + name, None)
        if h is not None:
            return h
        return Kernel.function_handler(self, name, node, callee_node)


def make_resolve(e):
    SPAN = 2 ** e

    class ResolveAggregate(ReduceKernel):
        name = "reduce_node.cpp:resolve_aggregate[span=2^%d]" % e
        fn_name = "resolve_aggregate"
        filter = "resolve_aggregate"
        title = "resolve_aggregate for positions whose subtree spans 2^%d leaves" % e
        extra_dumps = ((TU, "internal_count"),)

        def locate(self, dumps):
            fn = Kernel.locate(self, dumps)
            self.index(dumps[(TU, "internal_count")])
            return fn

        def setup(self, I):
            ctx = I.ctx
            self.base(I)
            self.pos = z3.Int("position")
            self.p = z3.Int("level_start")  # the power of two found by bit_floor
            ctx.assume(z3.And(self.pos >= 0, self.p >= 1, self.p <= self.pos + 1, self.pos + 1 < 2 * self.p))
            # an internal position whose level has span 2^e:  capacity = span * level_start
            ctx.assume(z3.And(self.cap >= 2, self.pos < self.cap - 1, self.cap == SPAN * self.p))
            self.depth_tok = z3.Int("depth_token")
            ctx.assume(self.depth_tok >= 0)
            return None, {"storage": self.st, "position": self.pos}

        def f_bit_floor(self, I, args, n):
            x = I.ctx.rv(args[0])
            I.ctx.oblige("model.bit_floor-argument-is-position+1", x == self.pos + 1, kind="callee-pre")
            return self.p

        def f_bit_width(self, I, args, n):
            x = I.ctx.rv(args[0])
            I.ctx.oblige("model.bit_width-of-the-level-start", x == self.p, kind="callee-pre")
            return self.depth_tok + 1

        def bitop(self, I, op, a, b, n):
            # leaf_capacity >> depth, with depth = bit_width(level_start) - 1 and level_start a power of two,
            # is leaf_capacity / level_start (= the concrete span of this case)
            ctx = I.ctx
            if op != ">>":
                raise Gap("bit operator %s" % op)
            ctx.oblige("model.shift-is-capacity>>depth", z3.And(a == self.cap, b == self.depth_tok), kind="callee-pre")
            return z3.IntVal(SPAN)

        loops = {0: LoopSpec(unroll=e + 1, unwind_assert=True)}

        def post(self, I, ret):
            ctx = I.ctx
            if not isinstance(ret, Agg):
                raise Gap("resolve_aggregate returned %r" % (ret,))
            first = (self.pos + 1 - self.p) * SPAN
            live, kind, idx = self.live, ret.kind, ret.index
            lis = z3.If(live - first < SPAN, live - first, z3.IntVal(SPAN))   # live leaves in the subtree
            ctx.oblige("ensures.Empty<=>no-live-leaf-below[C11 exactly the currently valid elements]",
                       (kind == EMPTY) == (first >= live), kind="post-normal")
            ctx.oblige("ensures.Leaf<=>exactly-one-live-leaf-below,and-it-is-the-first[C11]",
                       z3.And((kind == LEAF) == z3.And(first < live, lis == 1), z3.Implies(kind == LEAF, idx == first)),
                       kind="post-normal")
            spine = z3.Or(*[z3.And(idx + 1 == (self.pos + 1) * (2 ** k), lis <= 2 ** (e - k), 2 * lis > 2 ** (e - k))
                            for k in range(0, e + 1)])
            ctx.oblige("ensures.Node=>left-spine-descendant-covering-the-same-live-leaves,minimal[C11 independent of the "
                       "internal shape: the aggregate of the smallest subtree holding them]",
                       z3.Implies(kind == NODE, z3.And(first < live, lis >= 2, spine)), kind="post-normal")
            ctx.oblige("ensures.kind-is-one-of-three", z3.Or(kind == EMPTY, kind == LEAF, kind == NODE), kind="post-normal")

    ResolveAggregate.__name__ = "ResolveAggregate_e%d" % e
    return ResolveAggregate


class ResolveLeafLevel(ReduceKernel):
    name = "reduce_node.cpp:resolve_aggregate[leaf positions]"
    fn_name = "resolve_aggregate"
    filter = "resolve_aggregate"
    title = "resolve_aggregate for leaf positions (position >= internal_count)"
    extra_dumps = ((TU, "internal_count"),)
    loops = {0: LoopSpec(unroll=0, unwind_assert=True)}

    def locate(self, dumps):
        fn = Kernel.locate(self, dumps)
        self.index(dumps[(TU, "internal_count")])
        return fn

    def setup(self, I):
        self.base(I)
        self.pos = z3.Int("position")
        internals = z3.If(self.cap > 1, self.cap - 1, 0)
        I.ctx.assume(z3.And(self.pos >= internals))
        return None, {"storage": self.st, "position": self.pos}

    def post(self, I, ret):
        ctx = I.ctx
        internals = z3.If(self.cap > 1, self.cap - 1, 0)
        leaf = self.pos - internals
        ctx.oblige("ensures.leaf-position:Leaf(l)-iff-l-is-live-else-Empty[C11]",
                   z3.If(leaf < self.live, z3.And(ret.kind == LEAF, ret.index == leaf), ret.kind == EMPTY), kind="post-normal")


class RootAggregate(ReduceKernel):
    name = "reduce_node.cpp:root_aggregate"
    fn_name = "root_aggregate"
    filter = "root_aggregate"
    title = "root_aggregate: zero rule by live-value count"

    def setup(self, I):
        ctx = I.ctx
        self.base(I)
        cx = Obj("ReduceNodeContext", "context")
        sp = Obj("ReduceNodeSpec", "spec")
        self.has_zero = z3.Bool("has_zero")
        ctx.store[(sp.oid, "has_zero")] = self.has_zero
        ctx.store[(cx.oid, "spec")] = sp
        self.res_kind, self.res_index = z3.Int("resolved_kind"), z3.Int("resolved_index")
        self.resolved_calls = []
        return None, {"context": cx, "storage": self.st}

    def f_resolve_aggregate(self, I, args, n):
        self.resolved_calls.append(I.ctx.rv(args[1]))
        return Agg(self.res_kind, self.res_index)

    def post(self, I, ret):
        ctx = I.ctx
        live = self.live
        zero_case = z3.And(self.has_zero, live == 1, self.ncomb != 0)
        ctx.oblige("ensures.empty-collection=>Empty[C11 invalid / the zero for an empty collection]",
                   z3.Implies(live == 0, ret.kind == EMPTY), kind="post-normal")
        ctx.oblige("ensures.single-element-with-a-zero=>the-root-combiner(combine(value,zero))[C11]",
                   z3.Implies(zero_case, z3.And(ret.kind == NODE, ret.index == 0)), kind="post-normal")
        ctx.oblige("ensures.otherwise=>the-tree-aggregate-of-the-root[C11 the zero is never an operand once two or more are live]",
                   z3.Implies(z3.And(live != 0, z3.Not(zero_case)), z3.And(
                       ret.kind == self.res_kind, ret.index == self.res_index,
                       z3.BoolVal(len(self.resolved_calls) == 1) if self.resolved_calls else z3.BoolVal(False),
                       (self.resolved_calls[0] == 0) if self.resolved_calls else z3.BoolVal(False))), kind="post-normal")


class InternalCount(ReduceKernel):
    name = "reduce_node.cpp:internal_count"
    fn_name = "internal_count"
    filter = "internal_count"
    title = "internal_count == leaf_capacity - 1 (0 for capacity <= 1)"
    inline = ()

    def setup(self, I):
        self.base(I)
        return None, {"storage": self.st}

    def post(self, I, ret):
        I.ctx.oblige("ensures.result", ret == z3.If(self.cap > 1, self.cap - 1, 0), kind="post-normal")


KERNELS = [InternalCount, ResolveLeafLevel, RootAggregate] + [make_resolve(e) for e in range(1, 64)]
