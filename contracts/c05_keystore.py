"""C05, second layer -- KeySlotStore (include/hgraph/types/utils/key_slot_store.h), the keyed slot store underneath the set and
dictionary storages.  The contract that c05_collections / c05_tsd *use* for keys_.insert / find_slot / remove_slot /
erase_pending is proved here on the real member functions.

Abstract view (ghost `g`): per slot  con[s] (a key object exists), live[s] (that key is a member), key[s] (payload identity),
cap (addressable slots), idx[s] (slot is in the hash index), free list, pending-erase list, pending count.
KInv:
  range     s outside [0, cap): not con, not live, not idx
  states    live => con;  idx == con
  keys      two constructed slots never hold equal keys
  free      every entry of the free list is an addressable, unconstructed slot; entries are pairwise distinct
  pending   every pending (con & not live) slot occurs in the pending list (stale entries allowed);
            pending_count == |{pending slots}|  -- stated with a ghost bijection  prank : pending slots <-> [0, pending_count)
            whose new value each operation's contract supplies explicitly (no existential is left to the solver)
StableSlotStore<ConstructedAndLive> (third layer: one-line tag / bitmap transitions in impl/stable_slot_store_impl.h) is
used through its contract.  The hash index (ankerl set with transparent hash / equality functors that call back into the store)
is used through the contract "find(k) returns a member slot whose key equals k, or end() when no member has it".
"""
import z3

from cxxvc.kernel import Kernel, LoopSpec, Lemma
from cxxvc.interp import Obj, Ptr, Loc, ArrLoc, Gap, VOID, ThrowEx, DEFAULT_ARG
from cxxvc import extract, models
from contracts.c05_collections import NPOS, I_, B_, qs, qr, KeyView

TU = "src/hgraph/types/metadata/ts_data_slot_ops.cpp"
qi, qj = z3.Ints("qi qj")


class SlotMem(Obj):
    cls = "slot_memory"

    def __init__(self, slot):
        Obj.__init__(self, name="slot_memory")
        self.slot = slot

    def same_as(self, other):
        return self.slot == other.slot if isinstance(other, SlotMem) else z3.BoolVal(False)


class KeyPtr(Obj):
    """a `const void *key` argument: identity of the key payload"""
    cls = "key_ptr"

    def __init__(self, kid):
        Obj.__init__(self, name="key_ptr")
        self.kid = kid


class Stable(Obj):
    """StableSlotStore<ConstructedAndLive> through its contract over (con, live, cap)"""
    cls = "StableSlotStore"

    def __init__(self, k):
        Obj.__init__(self, name="key_storage")
        self.k = k

    def g(self, ctx, nm):
        return ctx.store[(self.k.g.oid, nm)]

    def w(self, I, nm, v):
        I.ctx.write(Loc((self.k.g.oid, nm)), v)

    def inr(self, ctx, s):
        return z3.And(s >= 0, s < self.g(ctx, "cap"))

    def m_slot_capacity(self, I, args, n):
        return self.g(I.ctx, "cap")

    def m_constructed(self, I, args, n):
        ctx = I.ctx
        s = ctx.rv(args[0])
        return z3.And(self.inr(ctx, s), self.g(ctx, "con")[s])

    def m_live(self, I, args, n):
        ctx = I.ctx
        s = ctx.rv(args[0])
        return z3.And(self.inr(ctx, s), self.g(ctx, "live")[s])

    def m_slot_memory(self, I, args, n):
        ctx = I.ctx
        s = ctx.rv(args[0])
        return Ptr(SlotMem(s), z3.Not(self.inr(ctx, s)))

    def m_live_slot_memory(self, I, args, n):
        ctx = I.ctx
        s = ctx.rv(args[0])
        return Ptr(SlotMem(s), z3.Not(z3.And(self.inr(ctx, s), self.g(ctx, "live")[s])))

    def m_non_live_slot_memory(self, I, args, n):
        ctx = I.ctx
        s = ctx.rv(args[0])
        return Ptr(SlotMem(s), z3.Not(z3.And(self.inr(ctx, s), self.g(ctx, "con")[s], z3.Not(self.g(ctx, "live")[s]))))

    def need_in_range(self, I, s, what, n):
        I.ctx.oblige("requires.%s: slot addressable@%s" % (what, extract.line_of(n)), self.inr(I.ctx, s), kind="callee-pre",
                     line=extract.line_of(n))

    def m_mark_staged(self, I, args, n):
        ctx = I.ctx
        s = ctx.rv(args[0])
        self.need_in_range(I, s, "mark_staged", n)
        self.w(I, "con", z3.Store(self.g(ctx, "con"), s, True))
        self.w(I, "live", z3.Store(self.g(ctx, "live"), s, False))
        return VOID

    def m_mark_live(self, I, args, n):
        ctx = I.ctx
        s = ctx.rv(args[0])
        ok = z3.And(self.inr(ctx, s), self.g(ctx, "con")[s], z3.Not(self.g(ctx, "live")[s]))
        live = self.g(ctx, "live")
        self.w(I, "live", z3.If(ok, z3.Store(live, s, True), live))
        return ok

    def m_mark_pending_erase(self, I, args, n):
        ctx = I.ctx
        s = ctx.rv(args[0])
        live = self.g(ctx, "live")
        ok = z3.And(self.inr(ctx, s), live[s])
        self.w(I, "live", z3.If(ok, z3.Store(live, s, False), live))
        return ok

    def m_mark_free(self, I, args, n):
        ctx = I.ctx
        s = ctx.rv(args[0])
        self.need_in_range(I, s, "mark_free", n)
        self.w(I, "con", z3.Store(self.g(ctx, "con"), s, False))
        self.w(I, "live", z3.Store(self.g(ctx, "live"), s, False))
        return VOID

    def m_reserve_to(self, I, args, n):
        """capacity' = max(capacity, c); existing slots keep their state, new slots are free"""
        ctx = I.ctx
        c = ctx.rv(args[0])
        cap = self.g(ctx, "cap")
        self.w(I, "cap", z3.If(c > cap, c, cap))
        return VOID


class IndexIter:
    def __init__(self, is_end, slot):
        self.is_end = is_end
        self.slot = slot

    def compare(self, I, op, other):
        if not isinstance(other, IndexIter):
            raise Gap("index iterator compared with %r" % (other,))
        if other.is_end is True:
            e = self.is_end
        elif self.is_end is True:
            e = other.is_end
        else:
            raise Gap("comparison of two index positions")
        return e if op == "==" else z3.Not(e)

    def op(self, I, op, rest, n, a0):
        if op in ("==", "!="):
            return self.compare(I, op, I.ctx.rv(rest[0]))
        if op == "*" and not rest:
            I.ctx.oblige("index-iterator-dereferenced-only-when-found", z3.Not(self.is_end), kind="iterator")
            return self.slot
        return NotImplemented

    def deref(self, I):
        I.ctx.oblige("index-iterator-dereferenced-only-when-found", z3.Not(self.is_end), kind="iterator")
        return self.slot


class Index(Obj):
    """the hash index: a set of slots looked up by key payload"""
    cls = "IndexSet"

    def __init__(self, k):
        Obj.__init__(self, name="m_index")
        self.k = k

    def g(self, ctx, nm):
        return ctx.store[(self.k.g.oid, nm)]

    def keyid(self, I, a):
        v = I.ctx.rv(a)
        if isinstance(v, Ptr):
            v = v.target
        kid = getattr(v, "kid", None)
        if kid is None:
            raise Gap("index lookup with %r" % (v,))
        return kid

    def m_find(self, I, args, n):
        ctx = I.ctx
        kid = self.keyid(I, args[0])
        idx, key, cap = self.g(ctx, "idx"), self.g(ctx, "key"), self.g(ctx, "cap")
        s = ctx.fresh("index_hit")
        found = ctx.fresh("index_found", "bool")
        ctx.assume(z3.If(found, z3.And(s >= 0, s < cap, idx[s], key[s] == kid),
                         z3.ForAll([qs], z3.Implies(z3.And(qs >= 0, qs < cap, idx[qs]), key[qs] != kid))))
        return IndexIter(z3.Not(found), s)

    def m_end(self, I, args, n):
        return IndexIter(True, None)

    def m_insert(self, I, args, n):
        ctx = I.ctx
        s = ctx.rv(args[0])
        if ctx.choose(2, "index insert allocation fails") == 0:
            I.throw_from_callee("IndexSet::insert", cls="std::bad_alloc")
        ctx.write(Loc((self.k.g.oid, "idx")), z3.Store(self.g(ctx, "idx"), s, True))
        return VOID

    def m_erase(self, I, args, n):
        ctx = I.ctx
        s = ctx.rv(args[0])
        ctx.write(Loc((self.k.g.oid, "idx")), z3.Store(self.g(ctx, "idx"), s, False))
        return VOID

    def m_reserve(self, I, args, n):
        if I.ctx.choose(2, "index reserve allocation fails") == 0:
            I.throw_from_callee("IndexSet::reserve", cls="std::bad_alloc")
        return VOID

    def m_clear(self, I, args, n):
        I.ctx.write(Loc((self.k.g.oid, "idx")), z3.K(I_, z3.BoolVal(False)))
        return VOID


class Plan(Obj):
    """MemoryUtils::StoragePlan: construction writes the payload identity into the slot (may throw), destroy forgets it"""
    cls = "StoragePlan"

    def __init__(self, k):
        Obj.__init__(self, name="m_key_plan")
        self.k = k

    def _construct(self, I, args, n, what):
        ctx = I.ctx
        dst = ctx.rv(args[0])
        src = ctx.rv(args[1])
        if isinstance(dst, Ptr):
            ctx.oblige("requires.%s: destination slot memory not null@%s" % (what, extract.line_of(n)), z3.Not(dst.null),
                       kind="callee-pre", line=extract.line_of(n))
            dst = dst.target
        if isinstance(src, Ptr):
            src = src.target
        if not isinstance(dst, SlotMem) or getattr(src, "kid", None) is None:
            raise Gap("%s(%r, %r)" % (what, dst, src))
        if ctx.choose(2, "key %s throws" % what) == 0:
            I.throw_from_callee("StoragePlan::" + what, cls="std::runtime_error")
        g = self.k.g
        ctx.write(Loc((g.oid, "key")), z3.Store(ctx.store[(g.oid, "key")], dst.slot, src.kid))
        return VOID

    def m_copy_construct(self, I, args, n):
        return self._construct(I, args, n, "copy_construct")

    def m_move_construct(self, I, args, n):
        return self._construct(I, args, n, "move_construct")

    def m_can_move_construct(self, I, args, n):
        return I.ctx.fresh("can_move_construct", "bool")

    def m_destroy(self, I, args, n):
        ctx = I.ctx
        dst = ctx.rv(args[0])
        if isinstance(dst, Ptr):
            ctx.oblige("requires.destroy: memory not null@%s" % extract.line_of(n), z3.Not(dst.null), kind="callee-pre",
                       line=extract.line_of(n))
        return VOID


class ValueBinding(Obj):
    """ValueTypeRef m_value_binding: default_construct_at / destroy_at / ops_ref().copy_assign_from (the last may throw)"""
    cls = "ValueTypeRef"

    def __init__(self, k):
        Obj.__init__(self, name="m_value_binding")
        self.k = k
        self.bound = z3.Bool("value_binding_bound")

    def truth(self, I=None):
        return self.bound

    def op(self, I, op, rest, n, a0):
        if op == "!" and not rest:
            return z3.Not(self.bound)
        return NotImplemented

    def m_default_construct_at(self, I, args, n):
        ctx = I.ctx
        dst = ctx.rv(args[0])
        if isinstance(dst, Ptr):
            ctx.oblige("requires.default_construct_at: destination slot memory not null@%s" % extract.line_of(n), z3.Not(dst.null),
                       kind="callee-pre", line=extract.line_of(n))
        if ctx.choose(2, "default construction throws") == 0:
            I.throw_from_callee("ValueTypeRef::default_construct_at", cls="std::runtime_error")
        return VOID

    def m_destroy_at(self, I, args, n):
        return VOID

    def m_ops_ref(self, I, args, n):
        return ValueOps(self.k)


class ValueOps(Obj):
    cls = "ValueOps"

    def __init__(self, k):
        Obj.__init__(self, name="value_ops")
        self.k = k

    def m_copy_assign_from(self, I, args, n):
        ctx = I.ctx
        dst = ctx.rv(args[1])
        src = ctx.rv(args[3])
        if isinstance(dst, Ptr):
            dst = dst.target
        if isinstance(src, Ptr):
            src = src.target
        if not isinstance(dst, SlotMem) or getattr(src, "kid", None) is None:
            raise Gap("copy_assign_from(%r, %r)" % (dst, src))
        if ctx.choose(2, "key copy assignment throws") == 0:
            I.throw_from_callee("ValueOps::copy_assign_from", cls="std::runtime_error")
        g = self.k.g
        ctx.write(Loc((g.oid, "key")), z3.Store(ctx.store[(g.oid, "key")], dst.slot, src.kid))
        return VOID


class ValueKey(KeyView):
    """a `const ValueView &key` argument"""

    def __init__(self, kid, has):
        KeyView.__init__(self, kid)
        self.has = has

    def m_has_value(self, I, args, n):
        return self.has

    def m_binding(self, I, args, n):
        return Obj("ValueTypeRef", "key_arg_binding")

    def m_data(self, I, args, n):
        return Ptr(self, z3.BoolVal(False))


class Observers(Obj):
    """SlotObserverList: structural observers are told after the store is consistent again; trusted not to re-enter the store"""
    cls = "SlotObserverList"

    def __init__(self, k):
        Obj.__init__(self, name="observers")
        self.k = k

    def note(self, I, what, args):
        k = self.k
        k.notified = getattr(k, "notified", []) + [(what, [I.ctx.rv(a) for a in args])]
        return VOID

    def m_notify_insert(self, I, args, n):
        I.ctx.write(Loc((self.k.g.oid, "n_insert")), I.ctx.store[(self.k.g.oid, "n_insert")] + 1)
        I.ctx.write(Loc((self.k.g.oid, "last_insert")), I.ctx.rv(args[0]))
        return VOID

    def m_notify_remove(self, I, args, n):
        I.ctx.write(Loc((self.k.g.oid, "n_remove")), I.ctx.store[(self.k.g.oid, "n_remove")] + 1)
        I.ctx.write(Loc((self.k.g.oid, "last_remove")), I.ctx.rv(args[0]))
        return VOID

    def m_notify_erase(self, I, args, n):
        ctx = I.ctx
        g = self.k.g
        ctx.write(Loc((g.oid, "erased_told")), z3.Store(ctx.store[(g.oid, "erased_told")], ctx.rv(args[0]), True))
        return VOID

    def m_notify_capacity(self, I, args, n):
        I.ctx.write(Loc((self.k.g.oid, "n_capacity")), I.ctx.store[(self.k.g.oid, "n_capacity")] + 1)
        return VOID


class KSKernel(Kernel):
    tu = TU
    filter = "KeySlotStore"
    cls = "KeySlotStore"
    property_ids = ("C05",)
    scope = {"lo": 0, "hi": 3}
    inline = ("find_stored_slot", "reuse_existing_slot", "acquire_free_slot", "rollback_new_slot", "require_value_binding",
              "slot_capacity", "slot_live", "slot_constructed")
    auto_inline = False
    model_methods_first = True
    reserve_contract = True   # reserve_to is used through its contract (proved by ReserveTo)

    def setup(self, I):
        ctx = I.ctx
        th = Obj("KeySlotStore", "this_store")
        self.th = th
        g = Obj("ghost", "ksg")
        self.g = g
        self.con0 = z3.Array("con0", I_, B_)
        self.live0 = z3.Array("live0", I_, B_)
        self.idx0 = z3.Array("idx0", I_, B_)
        self.key0 = z3.Array("key0", I_, I_)
        self.cap0 = z3.Int("cap0")
        self.prank0 = z3.Array("pending_rank0", I_, I_)
        self.pinv0 = z3.Array("pending_at0", I_, I_)
        self.lrank0 = z3.Array("live_rank0", I_, I_)
        self.linv0 = z3.Array("live_at0", I_, I_)
        for nm, v in (("con", self.con0), ("live", self.live0), ("idx", self.idx0), ("key", self.key0), ("cap", self.cap0),
                      ("n_insert", z3.IntVal(0)), ("n_remove", z3.IntVal(0)), ("n_capacity", z3.IntVal(0)),
                      ("last_insert", z3.IntVal(-1)), ("last_remove", z3.IntVal(-1)),
                      ("erased_told", z3.K(I_, z3.BoolVal(False)))):
            ctx.store[(g.oid, nm)] = v
        self.free = models.Vec(ctx, name="m_free_slots")
        self.pend = models.Vec(ctx, name="m_pending_erase_slots")
        self.free_len0, self.free_data0 = self.free.length(ctx), self.free.data(ctx)
        self.pend_len0, self.pend_data0 = self.pend.length(ctx), self.pend.data(ctx)
        self.cnt0 = z3.Int("pending_count0")
        self.size0 = z3.Int("size0")
        ctx.store[(th.oid, "m_free_slots")] = self.free
        ctx.store[(th.oid, "m_pending_erase_slots")] = self.pend
        ctx.store[(th.oid, "m_pending_erase_count")] = self.cnt0
        ctx.store[(th.oid, "m_size")] = self.size0
        ctx.store[(th.oid, "key_storage")] = Stable(self)
        ctx.store[(th.oid, "m_index")] = Ptr(Index(self), z3.BoolVal(False))
        ctx.store[(th.oid, "m_key_plan")] = Ptr(Plan(self), z3.BoolVal(False))
        self.vb = ValueBinding(self)
        ctx.store[(th.oid, "m_value_binding")] = self.vb
        ctx.store[(th.oid, "observers")] = Observers(self)
        # size <= capacity is a consequence of the live bijection (an injection of [0, size) into [0, cap)) that the solver
        # cannot derive (pigeonhole); it is only used for the no-overflow side conditions of acquire_free_slot
        ctx.assume(z3.And(self.cap0 >= 0, NPOS > 2 * self.cap0, self.size0 >= 0, self.size0 <= self.cap0))
        ctx.assume(self.k_inv(self.con0, self.live0, self.idx0, self.key0, self.cap0, self.free_len0, self.free_data0,
                              self.pend_len0, self.pend_data0, self.cnt0, self.prank0, self.pinv0, self.size0, self.lrank0, self.linv0))
        return th, self.params(I)

    def k_inv_parts(self, con, live, idx, key, cap, fl, fd, pl, pd, cnt, prank, pinv, size, lrank, linv):
        rng = lambda s: z3.And(s >= 0, s < cap)
        pending = lambda s: z3.And(con[s], z3.Not(live[s]))
        return [
            ("sizes-non-negative", z3.And(cap >= 0, fl >= 0, pl >= 0, cnt >= 0, size >= 0)),
            ("nothing-outside-the-capacity", z3.ForAll([qs], z3.Implies(z3.Not(rng(qs)), z3.And(z3.Not(con[qs]), z3.Not(live[qs]), z3.Not(idx[qs]))))),
            ("live=>constructed", z3.ForAll([qs], z3.Implies(live[qs], con[qs]))),
            ("index==constructed", z3.ForAll([qs], idx[qs] == con[qs])),
            ("one-constructed-slot-per-key", z3.ForAll([qs, qr], z3.Implies(z3.And(con[qs], con[qr], key[qs] == key[qr]), qs == qr))),
            ("free-list-entries-are-addressable-unconstructed-slots", z3.ForAll([qi], z3.Implies(z3.And(qi >= 0, qi < fl), z3.And(rng(fd[qi]), z3.Not(con[fd[qi]]))))),
            ("free-list-entries-distinct", z3.ForAll([qi, qj], z3.Implies(z3.And(qi >= 0, qi < fl, qj >= 0, qj < fl, fd[qi] == fd[qj]), qi == qj))),
            ("every-pending-slot-is-in-the-pending-list", z3.ForAll([qs], z3.Implies(pending(qs), z3.Exists([qi], z3.And(qi >= 0, qi < pl, pd[qi] == qs))))),
            ("pending-count:rank-of-each-pending-slot", z3.ForAll([qs], z3.Implies(pending(qs), z3.And(prank[qs] >= 0, prank[qs] < cnt, pinv[prank[qs]] == qs)))),
            ("pending-count:slot-of-each-rank", z3.ForAll([qi], z3.Implies(z3.And(qi >= 0, qi < cnt), z3.And(pending(pinv[qi]), prank[pinv[qi]] == qi)))),
            ("size:rank-of-each-live-slot", z3.ForAll([qs], z3.Implies(live[qs], z3.And(lrank[qs] >= 0, lrank[qs] < size, linv[lrank[qs]] == qs)))),
            ("size:slot-of-each-rank", z3.ForAll([qi], z3.Implies(z3.And(qi >= 0, qi < size), z3.And(live[linv[qi]], lrank[linv[qi]] == qi))))]

    def k_inv(self, *a):
        return z3.And(*[f for _, f in self.k_inv_parts(*a)])

    def cur(self, ctx, prank, pinv, lrank=None, linv=None):
        g, th = self.g, self.th
        return (ctx.store[(g.oid, "con")], ctx.store[(g.oid, "live")], ctx.store[(g.oid, "idx")], ctx.store[(g.oid, "key")],
                ctx.store[(g.oid, "cap")], self.free.length(ctx), self.free.data(ctx), self.pend.length(ctx), self.pend.data(ctx),
                ctx.store[(th.oid, "m_pending_erase_count")], prank, pinv, ctx.store[(th.oid, "m_size")],
                self.lrank0 if lrank is None else lrank, self.linv0 if linv is None else linv)

    def st(self, ctx):
        g = self.g
        return (ctx.store[(g.oid, "con")], ctx.store[(g.oid, "live")], ctx.store[(g.oid, "key")], ctx.store[(g.oid, "cap")])

    def global_var(self, I, ref, node):
        if ref.get("name") in ("npos",):
            return NPOS
        return None

    def ctor_handler(self, qt, node):
        if qt.endswith("InsertResult"):
            def mk(I, args, n):
                a = [I.ctx.rv(x) for x in args]
                if len(a) == 1 and isinstance(a[0], Obj) and a[0].cls == "InsertResult":
                    return a[0]
                o = Obj("InsertResult", "insert_result")
                d = [NPOS, z3.BoolVal(False), z3.BoolVal(False)]
                for i, x in enumerate(a):
                    if x is not DEFAULT_ARG:
                        d[i] = x
                I.ctx.store[(o.oid, "slot")], I.ctx.store[(o.oid, "inserted")], I.ctx.store[(o.oid, "constructed")] = d
                return o
            return mk
        return Kernel.ctor_handler(self, qt, node)

    def method_handler(self, obj, name, node):
        if name == "reserve_to" and getattr(obj, "cls", None) == "KeySlotStore" and self.reserve_contract:
            return self.reserve_to_contract
        return Kernel.method_handler(self, obj, name, node)

    def reserve_to_contract(self, I, obj, args, n):
        """KeySlotStore::reserve_to(c) with c > capacity (proved by the ReserveTo kernel): capacity' = c, slot states kept,
        the free list gains exactly the new slots [capacity, c) (so it is not empty afterwards), observers told; or it throws
        (index reservation) having at most grown the capacity with the free list untouched"""
        ctx = I.ctx
        g = self.g
        c = ctx.rv(args[0])
        cap = ctx.store[(g.oid, "cap")]
        if not ctx.decide(c > cap, "reserve_to grows"):
            return VOID
        if ctx.choose(2, "reserve_to throws") == 0:
            ctx.write(Loc((g.oid, "cap")), c)
            I.throw_from_callee("KeySlotStore::reserve_to", cls="std::bad_alloc")
        fl, fd = self.free.length(ctx), self.free.data(ctx)
        nfd = ctx.fresh("free_after_reserve", fd.sort())
        nfl = fl + (c - cap)
        ctx.assume(z3.ForAll([qi], z3.Implies(z3.And(qi >= 0, qi < fl), nfd[qi] == fd[qi])))
        ctx.assume(z3.ForAll([qi], z3.Implies(z3.And(qi >= fl, qi < nfl), nfd[qi] == c - 1 - (qi - fl))))
        ctx.write(Loc((self.free.oid, "data")), nfd)
        ctx.write(Loc((self.free.oid, "len")), nfl)
        ctx.write(Loc((g.oid, "cap")), c)
        ctx.write(Loc((g.oid, "n_capacity")), ctx.store[(g.oid, "n_capacity")] + 1)
        return VOID

    # ---- shared clauses
    def inv_post(self, I, prank, pinv, kind="post-normal", name="ensures.KInv[C05 slot states, unique keys, free list, pending list and counts stay consistent]",
                 lrank=None, linv=None):
        ctx = I.ctx
        head, _, tag = name.partition("[")
        for nm, f in self.k_inv_parts(*self.cur(ctx, prank, pinv, lrank, linv)):
            ctx.oblige("%s:%s%s" % (head, nm, ("[" + tag) if tag else ""), f, kind=kind)

    def unchanged(self, ctx):
        con, live, key, cap = self.st(ctx)
        return z3.And(con == self.con0, live == self.live0,
                      z3.ForAll([qs], z3.Implies(self.con0[qs], key[qs] == self.key0[qs])))


class InsertBase(KSKernel):
    fn_name = "insert"

    def key_id(self):
        return z3.Int("key")

    def post(self, I, ret):
        ctx = I.ctx
        con, live, key, cap = self.st(ctx)
        kid = self.kid_
        slot, ins, cons = (ctx.store[(ret.oid, "slot")], ctx.store[(ret.oid, "inserted")], ctx.store[(ret.oid, "constructed")])
        had = lambda s: z3.And(s >= 0, s < self.cap0, self.con0[s], self.key0[s] == kid)
        ex_live = z3.Exists([qs], z3.And(had(qs), self.live0[qs]))
        ex_pend = z3.Exists([qs], z3.And(had(qs), z3.Not(self.live0[qs])))
        cnt = ctx.store[(self.th.oid, "m_pending_erase_count")]
        # ghost witness for the pending bijection: a resurrected slot leaves it, the last rank moves into its place
        last = self.pinv0[self.cnt0 - 1]
        r = self.prank0[slot]
        resur = z3.And(ins, z3.Not(cons))
        prank = z3.If(resur, z3.Store(self.prank0, last, r), self.prank0)
        pinv = z3.If(resur, z3.Store(self.pinv0, r, last), self.pinv0)
        lrank = z3.If(ins, z3.Store(self.lrank0, slot, self.size0), self.lrank0)
        linv = z3.If(ins, z3.Store(self.linv0, self.size0, slot), self.linv0)
        self.inv_post(I, prank, pinv, lrank=lrank, linv=linv)
        ctx.oblige("ensures.key-live-at-the-returned-slot[C05 every added element is present afterwards]",
                   z3.And(slot >= 0, slot < cap, live[slot], con[slot], key[slot] == kid), kind="post-normal")
        ctx.oblige("ensures.already-live=>nothing-changes,not-inserted", z3.Implies(ex_live, z3.And(
            z3.Not(ins), z3.Not(cons), self.live0[slot], self.key0[slot] == kid, self.unchanged(ctx), cap == self.cap0)), kind="post-normal")
        ctx.oblige("ensures.pending=>that-slot-resurrected,no-new-slot[C05 a key re-inserted within the cycle keeps its slot]",
                   z3.Implies(ex_pend, z3.And(ins, z3.Not(cons), had(slot), z3.Not(self.live0[slot]), con == self.con0, cap == self.cap0,
                                              z3.ForAll([qs], live[qs] == z3.Or(self.live0[qs], qs == slot)),
                                              z3.ForAll([qs], z3.Implies(self.con0[qs], key[qs] == self.key0[qs])))), kind="post-normal")
        ctx.oblige("ensures.absent=>a-free-slot-is-constructed-and-live",
                   z3.Implies(z3.And(z3.Not(ex_live), z3.Not(ex_pend)), z3.And(
                       ins, cons, z3.Not(self.con0[slot]), cap >= self.cap0,
                       z3.ForAll([qs], z3.And(con[qs] == z3.Or(self.con0[qs], qs == slot), live[qs] == z3.Or(self.live0[qs], qs == slot))),
                       z3.ForAll([qs], z3.Implies(self.con0[qs], key[qs] == self.key0[qs])))), kind="post-normal")
        ctx.oblige("ensures.size-counts-live-keys", ctx.store[(self.th.oid, "m_size")] == self.size0 + z3.If(ins, 1, 0), kind="post-normal")
        ctx.oblige("ensures.pending-count", cnt == self.cnt0 - z3.If(resur, 1, 0), kind="post-normal")
        ctx.oblige("ensures.observers-told-of-the-insert-exactly-when-inserted",
                   z3.And(ctx.store[(self.g.oid, "n_insert")] == z3.If(ins, 1, 0),
                          z3.Implies(ins, ctx.store[(self.g.oid, "last_insert")] == slot),
                          ctx.store[(self.g.oid, "n_remove")] == 0), kind="post-normal")

    def post_exc(self, I, exc):
        """a failed insert (key construction, index growth, argument error) leaves the abstract view as it was"""
        ctx = I.ctx
        con, live, key, cap = self.st(ctx)
        self.inv_post(I, self.prank0, self.pinv0, kind="post-exceptional",
                      name="raises.KInv[C05 a failed insert rolls back: slot states, index, free list consistent]")
        ctx.oblige("raises.view-unchanged", z3.And(self.unchanged(ctx), cap >= self.cap0,
                                                   ctx.store[(self.th.oid, "m_size")] == self.size0,
                                                   ctx.store[(self.th.oid, "m_pending_erase_count")] == self.cnt0,
                                                   ctx.store[(self.g.oid, "n_insert")] == 0), kind="post-exceptional")
        self.exc_class(I, exc)

    def exc_class(self, I, exc):
        pass


class InsertValueView(InsertBase):
    name = "key_slot_store.h:KeySlotStore::insert(const ValueView &)"
    sig = "(const hgraph::ValueView &)"
    title = ("KeySlotStore::insert(ValueView): a live key is found, a pending-erase key is resurrected in its own slot, otherwise a free "
             "slot is constructed; any failure on the way rolls everything back")

    def params(self, I):
        self.kid_ = z3.Int("key")
        self.has_ = z3.Bool("key_has_value")
        return {"key": ValueKey(self.kid_, self.has_)}

    def exc_class(self, I, exc):
        ctx = I.ctx
        ctx.oblige("raises.argument-errors-only-for-a-missing-binding-or-an-empty-key", z3.Implies(
            z3.BoolVal(exc.cls in ("std::logic_error", "std::invalid_argument")), z3.Or(z3.Not(self.vb.bound), z3.Not(self.has_))),
            kind="post-exceptional")

    def post(self, I, ret):
        I.ctx.oblige("ensures.returns-normally-only-with-a-binding-and-a-key", z3.And(self.vb.bound, self.has_), kind="post-normal")
        InsertBase.post(self, I, ret)


class InsertPtr(InsertBase):
    name = "key_slot_store.h:KeySlotStore::insert(const void *)"
    sig = "(const void *)"
    title = "KeySlotStore::insert(const void *): as the ValueView overload, copy-constructing through the storage plan"

    def params(self, I):
        self.kid_ = z3.Int("key")
        self.null_ = z3.Bool("key_is_null")
        return {"key": Ptr(KeyPtr(self.kid_), self.null_)}

    def exc_class(self, I, exc):
        I.ctx.oblige("raises.invalid_argument-iff-null-key", z3.BoolVal(exc.cls == "std::invalid_argument") == self.null_,
                     kind="post-exceptional")


class InsertMove(InsertPtr):
    name = "key_slot_store.h:KeySlotStore::insert_move(void *)"
    fn_name = "insert_move"
    sig = "(void *)"
    title = "KeySlotStore::insert_move: as insert; the lookup happens before the move, an existing key leaves the source untouched"


class RemoveSlot(KSKernel):
    name = "key_slot_store.h:KeySlotStore::remove_slot"
    fn_name = "remove_slot"
    title = "KeySlotStore::remove_slot: a live slot becomes pending-erase (still constructed, still addressable by key), anything else is refused"

    def params(self, I):
        self.s_ = z3.Int("slot_arg")
        I.ctx.assume(self.s_ >= 0)
        return {"slot": self.s_}

    def post(self, I, ret):
        ctx = I.ctx
        con, live, key, cap = self.st(ctx)
        s = self.s_
        was = z3.And(s < self.cap0, self.live0[s])
        prank = z3.If(was, z3.Store(self.prank0, s, self.cnt0), self.prank0)
        pinv = z3.If(was, z3.Store(self.pinv0, self.cnt0, s), self.pinv0)
        lr, llast = self.lrank0[s], self.linv0[self.size0 - 1]
        lrank = z3.If(was, z3.Store(self.lrank0, llast, lr), self.lrank0)
        linv = z3.If(was, z3.Store(self.linv0, lr, llast), self.linv0)
        self.inv_post(I, prank, pinv, lrank=lrank, linv=linv)
        ctx.oblige("ensures.result<=>slot-was-live", ret == was, kind="post-normal")
        ctx.oblige("ensures.membership[C05 every removed element is absent afterwards; others kept]",
                   z3.ForAll([qs], live[qs] == z3.And(self.live0[qs], z3.Not(z3.And(was, qs == s)))), kind="post-normal")
        ctx.oblige("ensures.removed-key-stays-constructed[C05 logical removal vs physical erase keeps removed values readable for the cycle]",
                   z3.And(con == self.con0, key == self.key0, cap == self.cap0), kind="post-normal")
        ctx.oblige("ensures.counts", z3.And(ctx.store[(self.th.oid, "m_size")] == self.size0 - z3.If(was, 1, 0),
                                            ctx.store[(self.th.oid, "m_pending_erase_count")] == self.cnt0 + z3.If(was, 1, 0)),
                   kind="post-normal")
        ctx.oblige("ensures.observers-told-of-the-removal-exactly-when-removed", z3.And(
            ctx.store[(self.g.oid, "n_remove")] == z3.If(was, 1, 0), z3.Implies(was, ctx.store[(self.g.oid, "last_remove")] == s)),
            kind="post-normal")


class ErasePending(KSKernel):
    name = "key_slot_store.h:KeySlotStore::erase_pending"
    fn_name = "erase_pending"
    title = "KeySlotStore::erase_pending: every pending-erase slot is destroyed, leaves the index and returns to the free list; live slots untouched"

    def params(self, I):
        return {}

    def _inv(self, I, ctx):
        g = self.g
        con, live, key, cap = self.st(ctx)
        idx = ctx.store[(g.oid, "idx")]
        pos = self.range_pos(I)
        pl, pd = self.pend.length(ctx), self.pend.data(ctx)
        fl, fd = self.free.length(ctx), self.free.data(ctx)
        told = ctx.store[(g.oid, "erased_told")]
        rng = lambda s: z3.And(s >= 0, s < cap)
        yield "position-in-range", z3.And(pos >= 0, pos <= pl)
        yield "pending-list-and-capacity-untouched", z3.And(pl == self.pend_len0, pd == self.pend_data0, cap == self.cap0,
                                                           ctx.store[(self.th.oid, "m_pending_erase_count")] == self.cnt0)
        yield "live-slots-untouched", z3.And(live == self.live0, z3.ForAll([qs], z3.Implies(self.live0[qs], con[qs])))
        yield "only-pending-slots-are-freed", z3.ForAll([qs], z3.Implies(con[qs] != self.con0[qs], z3.And(
            self.con0[qs], z3.Not(self.live0[qs]), z3.Not(con[qs]))))
        yield "visited-pending-slots-are-free", z3.ForAll([qi], z3.Implies(z3.And(qi >= 0, qi < pos), z3.Or(
            live[pd[qi]], z3.Not(con[pd[qi]]))))
        yield "index-follows", z3.ForAll([qs], idx[qs] == con[qs])
        yield "keys-of-constructed-slots-kept", z3.ForAll([qs], z3.Implies(con[qs], key[qs] == self.key0[qs]))
        yield "free-list-sound", z3.And(fl >= 0, z3.ForAll([qi], z3.Implies(z3.And(qi >= 0, qi < fl), z3.And(rng(fd[qi]), z3.Not(con[fd[qi]])))))
        yield "free-list-distinct", z3.ForAll([qi, qj], z3.Implies(z3.And(qi >= 0, qi < fl, qj >= 0, qj < fl, fd[qi] == fd[qj]), qi == qj))
        yield "observers-told-of-exactly-the-erased-slots", z3.ForAll([qs], told[qs] == z3.And(self.con0[qs], z3.Not(con[qs])))

    def _frame(self, I, ctx):
        g = self.g
        return [Loc((g.oid, "con")), Loc((g.oid, "live")), Loc((g.oid, "idx")), Loc((g.oid, "erased_told")),
                Loc((self.free.oid, "data")), Loc((self.free.oid, "len"))]

    @property
    def loops(self):
        return {0: LoopSpec(inv=self._inv, frame=self._frame)}

    def post(self, I, ret):
        ctx = I.ctx
        con, live, key, cap = self.st(ctx)
        self.inv_post(I, self.prank0, self.pinv0)
        ctx.oblige("ensures.constructed==live[C05 removed elements are gone once their cycle is over]",
                   z3.ForAll([qs], con[qs] == self.live0[qs]), kind="post-normal")
        ctx.oblige("ensures.live-slots-and-their-keys-untouched", z3.And(live == self.live0, cap == self.cap0, z3.ForAll(
            [qs], z3.Implies(self.live0[qs], key[qs] == self.key0[qs]))), kind="post-normal")
        ctx.oblige("ensures.pending-count-zero,size-kept", z3.And(ctx.store[(self.th.oid, "m_pending_erase_count")] == 0,
                                                                   ctx.store[(self.th.oid, "m_size")] == self.size0), kind="post-normal")
        ctx.oblige("ensures.observers-told-of-exactly-the-erased-slots[C10 children destroyed with their key's slot]",
                   z3.ForAll([qs], ctx.store[(self.g.oid, "erased_told")][qs] == z3.And(self.con0[qs], z3.Not(self.live0[qs]))),
                   kind="post-normal")


class FindSlot(KSKernel):
    name = "key_slot_store.h:KeySlotStore::find_slot(const ValueView &)"
    fn_name = "find_slot"
    sig = "(const hgraph::ValueView &)"
    title = "KeySlotStore::find_slot: the live slot holding the key, npos when the key is absent or only pending erase"

    def params(self, I):
        self.kid_ = z3.Int("key")
        self.has_ = z3.Bool("key_has_value")
        return {"key": ValueKey(self.kid_, self.has_)}

    def post(self, I, ret):
        ctx = I.ctx
        kid = self.kid_
        hit = lambda s: z3.And(s >= 0, s < self.cap0, self.live0[s], self.key0[s] == kid)
        ctx.oblige("ensures.found=>live-slot-with-that-key", z3.Implies(ret != NPOS, hit(ret)), kind="post-normal")
        ctx.oblige("ensures.npos=>no-live-slot-has-the-key", z3.Implies(z3.And(ret == NPOS, self.has_), z3.Not(z3.Exists([qs], hit(qs)))),
                   kind="post-normal")
        ctx.oblige("ensures.pure", self.unchanged(ctx), kind="post-normal")

    def post_exc(self, I, exc):
        I.ctx.oblige("raises.logic_error-iff-no-value-binding", z3.And(z3.BoolVal(exc.cls == "std::logic_error"), z3.Not(self.vb.bound)),
                     kind="post-exceptional")


class ReserveTo(KSKernel):
    name = "key_slot_store.h:KeySlotStore::reserve_to"
    fn_name = "reserve_to"
    sig = "void (size_t)"
    plain_only = True
    reserve_contract = False
    title = "KeySlotStore::reserve_to: capacity grows to c, existing slots keep their state, exactly the new slots join the free list"

    def params(self, I):
        self.c_ = z3.Int("capacity_arg")
        I.ctx.assume(z3.And(self.c_ >= 0, self.c_ < NPOS))
        return {"capacity": self.c_}

    def _inv(self, I, ctx):
        slot = self.local(I, "slot")
        fl, fd = self.free.length(ctx), self.free.data(ctx)
        c, cap0 = self.c_, self.cap0
        yield "cursor-range", z3.And(slot >= cap0, slot <= c)
        yield "free-list-length", fl == self.free_len0 + (c - slot)
        yield "old-entries-kept", z3.ForAll([qi], z3.Implies(z3.And(qi >= 0, qi < self.free_len0), fd[qi] == self.free_data0[qi]))
        yield "new-entries-descend-from-the-top", z3.ForAll([qi], z3.Implies(z3.And(qi >= self.free_len0, qi < fl),
                                                                            fd[qi] == c - 1 - (qi - self.free_len0)))

    def _frame(self, I, ctx):
        return [Loc((self.free.oid, "data")), Loc((self.free.oid, "len"))]

    @property
    def loops(self):
        return {0: LoopSpec(inv=self._inv, frame=self._frame)}

    def post(self, I, ret):
        ctx = I.ctx
        con, live, key, cap = self.st(ctx)
        fl, fd = self.free.length(ctx), self.free.data(ctx)
        c = self.c_
        grow = c > self.cap0
        self.inv_post(I, self.prank0, self.pinv0)
        ctx.oblige("ensures.capacity=max(old,c),slot-states-kept", z3.And(cap == z3.If(grow, c, self.cap0), self.unchanged(ctx)),
                   kind="post-normal")
        ctx.oblige("ensures.free-list-gains-exactly-the-new-slots", z3.And(
            fl == self.free_len0 + z3.If(grow, c - self.cap0, 0),
            z3.ForAll([qi], z3.Implies(z3.And(qi >= 0, qi < self.free_len0), fd[qi] == self.free_data0[qi])),
            z3.ForAll([qi], z3.Implies(z3.And(qi >= self.free_len0, qi < fl), fd[qi] == c - 1 - (qi - self.free_len0)))), kind="post-normal")
        ctx.oblige("ensures.observers-told-once-when-grown", ctx.store[(self.g.oid, "n_capacity")] == z3.If(grow, 1, 0), kind="post-normal")

    def post_exc(self, I, exc):
        ctx = I.ctx
        con, live, key, cap = self.st(ctx)
        ctx.oblige("raises.only-after-growing-with-the-free-list-untouched", z3.And(
            self.c_ > self.cap0, cap == self.c_, self.unchanged(ctx), self.free.length(ctx) == self.free_len0,
            self.free.data(ctx) == self.free_data0), kind="post-exceptional")


class KeyStoreContractLemma(Lemma):
    """the contract assumed by the set / dictionary kernels (c05_collections.KeyStore.insert: three outcomes) follows from what
    is proved on KeySlotStore::insert above"""
    name = "lemma:proved-KeySlotStore-insert-post=>contract-used-by-the-TSS/TSD-kernels"
    property_ids = ("C05",)
    scope = {"lo": 0, "hi": 3}

    def lemmas(self):
        con0, live0, key0 = z3.Array("con0", I_, B_), z3.Array("live0", I_, B_), z3.Array("key0", I_, I_)
        con, live, key = z3.Array("con1", I_, B_), z3.Array("live1", I_, B_), z3.Array("key1", I_, I_)
        cap0, cap, slot, kid = z3.Ints("cap0 cap1 slot key")
        ins, cons = z3.Bools("inserted constructed")
        had = lambda s: z3.And(s >= 0, s < cap0, con0[s], key0[s] == kid)
        ex_live = z3.Exists([qs], z3.And(had(qs), live0[qs]))
        ex_pend = z3.Exists([qs], z3.And(had(qs), z3.Not(live0[qs])))
        inv0 = z3.And(z3.ForAll([qs], z3.Implies(z3.Not(z3.And(qs >= 0, qs < cap0)), z3.And(z3.Not(con0[qs]), z3.Not(live0[qs])))),
                      z3.ForAll([qs], z3.Implies(live0[qs], con0[qs])),
                      z3.ForAll([qs, qr], z3.Implies(z3.And(con0[qs], con0[qr], key0[qs] == key0[qr]), qs == qr)))
        unchanged = z3.And(con == con0, live == live0, z3.ForAll([qs], z3.Implies(con0[qs], key[qs] == key0[qs])))
        proved = z3.And(
            slot >= 0, slot < cap, live[slot], con[slot], key[slot] == kid,
            z3.Implies(ex_live, z3.And(z3.Not(ins), z3.Not(cons), live0[slot], key0[slot] == kid, unchanged, cap == cap0)),
            z3.Implies(ex_pend, z3.And(ins, z3.Not(cons), had(slot), z3.Not(live0[slot]), con == con0, cap == cap0,
                                       z3.ForAll([qs], live[qs] == z3.Or(live0[qs], qs == slot)),
                                       z3.ForAll([qs], z3.Implies(con0[qs], key[qs] == key0[qs])))),
            z3.Implies(z3.And(z3.Not(ex_live), z3.Not(ex_pend)), z3.And(
                ins, cons, z3.Not(con0[slot]), cap >= cap0,
                z3.ForAll([qs], z3.And(con[qs] == z3.Or(con0[qs], qs == slot), live[qs] == z3.Or(live0[qs], qs == slot))),
                z3.ForAll([qs], z3.Implies(con0[qs], key[qs] == key0[qs])))))
        case0 = z3.And(z3.Not(ins), z3.Not(cons), slot < cap0, live0[slot], key0[slot] == kid, cap == cap0, con == con0, live == live0)
        case1 = z3.And(ins, z3.Not(cons), slot < cap0, con0[slot], z3.Not(live0[slot]), key0[slot] == kid, cap == cap0,
                       z3.ForAll([qs], z3.Implies(z3.And(qs >= 0, qs < cap0, live0[qs]), key0[qs] != kid)),
                       live == z3.Store(live0, slot, True), con == con0)
        case2 = z3.And(ins, cons, z3.Not(con0[slot]), cap >= cap0,
                       z3.ForAll([qs], z3.Implies(z3.And(qs >= 0, qs < cap0, con0[qs]), key0[qs] != kid)),
                       live == z3.Store(live0, slot, True), con == z3.Store(con0, slot, True))
        # arrays are compared extensionally
        return [("insert: proved post => one of the three assumed outcomes", [inv0, cap0 >= 0, proved], z3.Or(case0, case1, case2))]


for _k in (InsertValueView, InsertPtr, InsertMove, RemoveSlot, ErasePending, FindSlot, ReserveTo):
    models.install_guards(_k)

KERNELS = [InsertValueView, InsertPtr, InsertMove, RemoveSlot, ErasePending, FindSlot, ReserveTo]
LEMMAS = [KeyStoreContractLemma]
