#!/usr/bin/env python3
"""Seeded breaks (DESIGN.md section 6): apply each mutant of mutants/<Cxx>.json to a scratch copy of the
affected file tree (outside /repo and /verif, removed afterwards) and run the property's check against it.
A mutant must turn exit 0 into exit 1 (or exit 2/3 = not decided, reported as such).  Output is summarised;
no VIOLATION line of a seeded break reaches this script's stdout.

  selftest.py C18 [name-substring]
"""
import json, os, shutil, subprocess, sys, tempfile

VERIF = os.path.dirname(os.path.abspath(__file__))
REPO = os.environ.get("CXXVC_REPO", "/repo")


def main():
    pid = sys.argv[1]
    flt = sys.argv[2] if len(sys.argv) > 2 else ""
    muts = json.load(open(os.path.join(VERIF, "mutants", pid + ".json")))
    tmp = tempfile.mkdtemp(prefix="verif_selftest_")
    results = []
    try:
        scratch = os.path.join(tmp, "repo")
        os.makedirs(scratch)
        for top in ("include", "src"):
            shutil.copytree(os.path.join(REPO, top), os.path.join(scratch, top), symlinks=True)
        for m in muts:
            if flt and flt not in m["name"]:
                continue
            p = os.path.join(scratch, m["file"])
            orig = open(p).read()
            if orig.count(m["old"]) != 1:
                results.append((m["name"], "STALE (pattern occurs %d times)" % orig.count(m["old"]), ""))
                print("SELFTEST property=%s mutant=%s -> STALE (pattern occurs %d times)" % (pid, m["name"], orig.count(m["old"])), flush=True)
                continue
            open(p, "w").write(orig.replace(m["old"], m["new"]))
            env = dict(os.environ, CXXVC_REPO=scratch, CXXVC_CACHE=os.path.join(tmp, "cache"),
                       CXXVC_EVIDENCE_DIR=os.path.join(tmp, "evidence"), CXXVC_REPLAY_DIR=os.path.join(tmp, "replays"))
            r = subprocess.run([os.path.join(VERIF, "check"), pid, "--tier", "quick"], capture_output=True, text=True, env=env)
            open(p, "w").write(orig)
            viol = [l for l in r.stdout.splitlines() if l.startswith("violated obligation")]
            status = {0: "SURVIVED", 1: "caught", 2: "undecided", 3: "gap"}.get(r.returncode, "exit %d" % r.returncode)
            detail = "; ".join(v.replace("violated obligation: ", "") for v in viol[:3])
            if r.returncode in (2, 3):
                detail = "; ".join(l for l in r.stdout.splitlines() if l.startswith(("GAP", "UNDECIDED")))[:300]
            exp = m.get("expect")
            if r.returncode == 1 and exp and not any(exp in v for v in viol):
                status = "caught (other obligation than expected %r)" % exp
            results.append((m["name"], status, detail))
            print("SELFTEST property=%s mutant=%s -> %s %s" % (pid, m["name"], status, detail[:400]), flush=True)
    finally:
        shutil.rmtree(tmp, ignore_errors=True)
    bad = [r for r in results if not r[1].startswith("caught")]
    print("SELFTEST property=%s mutants=%d caught=%d not-caught=%d" % (pid, len(results), len(results) - len(bad), len(bad)))
    return 0


if __name__ == "__main__":
    sys.exit(main())
