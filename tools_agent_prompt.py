#!/usr/bin/env python3
"""writes the prompt given to an independent sub-agent that seeds a property-breaking change (DESIGN.md 0.6):
   tools_agent_prompt.py <Cxx> <round>  ->  /tmp/agents/prompt<round>_<Cxx>.txt
The agent gets the property record, its own scratch worktree /tmp/agents/wt_<Cxx>, a build directory /tmp/agents/bd_<Cxx> (a copy
of .cache/native_rt) and /tmp/agents/tools/build_rt.py (= native/build_runtime.py) plus a neutral example probe - nothing from /verif."""
import json, sys
pid, rnd = sys.argv[1], sys.argv[2]
props = {json.loads(l)['id']: json.loads(l) for l in open('/verif/properties.jsonl')}
T = open('/tmp/agents/prompt_%s.txt' % pid).read() if False else None
print("see /verif/DESIGN.md section 0.6 for the wording used in rounds 6 and 7 (kept in the session transcript); property record:")
print(json.dumps(props[pid], indent=1))
