#!/bin/bash
# confirm every seeded change natively: demo exits 0 on the unchanged tree and non-zero with the change
# usage: tools_confirm_seeded.sh <scratch worktree> <scratch build dir> [ids...]
WT=$1; BD=$2; shift 2
IDS=${@:-$(ls /verif/seeded)}
cd /verif/seeded
for id in $IDS; do
  [ -f $id/patch.diff ] || continue
  git -C $WT checkout -q -- . 
  python3 /verif/native/build_runtime.py $WT $BD >/dev/null 2>&1 || { echo "$id: base build failed"; continue; }
  python3 /verif/native/build_runtime.py $WT $BD --probe $id/demo.cpp -o /tmp/agents/confirm_demo_base >/dev/null 2>&1 || { echo "$id: base demo build failed"; continue; }
  /tmp/agents/confirm_demo_base > /tmp/agents/confirm_base.out 2>&1; base=$?
  git -C $WT apply /verif/seeded/$id/patch.diff || { echo "$id: patch does not apply"; continue; }
  python3 /verif/native/build_runtime.py $WT $BD >/tmp/agents/confirm_build.log 2>&1 || { echo "$id: changed tree does not compile"; tail -5 /tmp/agents/confirm_build.log; git -C $WT checkout -q -- .; continue; }
  python3 /verif/native/build_runtime.py $WT $BD --probe $id/demo.cpp -o /tmp/agents/confirm_demo_chg >/dev/null 2>&1
  /tmp/agents/confirm_demo_chg > /tmp/agents/confirm_chg.out 2>&1; chg=$?
  git -C $WT checkout -q -- .
  echo "$id: unchanged exit=$base changed exit=$chg :: base: $(tail -1 /tmp/agents/confirm_base.out | cut -c1-100) :: changed: $(tail -1 /tmp/agents/confirm_chg.out | cut -c1-100)"
done
