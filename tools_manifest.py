#!/usr/bin/env python3
"""regenerates MANIFEST.json from contracts/registry.py + manifest_text.py (kept valid at all times)"""
import json, sys
sys.path.insert(0, '/verif')
from contracts import registry
from manifest_text import TEXT, NOT_APPLICABLE

props = [json.loads(l) for l in open('/verif/properties.jsonl')]
claimed = [p['id'] for p in props if p['id'] in registry.PROPS and p['id'] in TEXT]
checks = []
TECH = ("contract-based deductive verification: VCs generated from clang's AST of the real C++ functions (cxxvc), "
        "discharged by z3 (cvc5 fallback); finite-scope counter-models, native replay where a harness exists")
for pid in claimed:
    pr = registry.PROPS[pid]
    t = TEXT[pid]
    checks.append({
        "property_id": pid,
        "quick_cmd": "./check %s --tier quick" % pid,
        "thorough_cmd": "./check %s --tier thorough" % pid,
        "evidence_file": "evidence/%s.json" % pid,
        "replay_cmd_template": "./check %s --replay {path}" % pid,
        "engine": "cxxvc",
        "level_claimed": {"category": pr["level"], "text": t["text"], "design_ref": pr["design_ref"]},
        "level_note": t["note"],
        "technique": t.get("technique", TECH),
    })
na = []
for p in props:
    if p['id'] in claimed:
        continue
    na.append({"property_id": p['id'], "reason": NOT_APPLICABLE.get(p['id'],
               "check not built yet (planned, DESIGN.md section 8); not claimed until its obligations discharge on the unchanged tree")})
m = {"version": 1, "setup_cmd": "./setup.sh",
     "hooks": {"guard": "HHENSON_HGRAPH_VERIF",
               "enable": "none needed: contracts are sidecar files under /verif/contracts, the checks read /repo's sources directly; no hook commit exists in /repo (only 'fix:' commits)",
               "baseline_off_cmd": "cd /repo && /venv/bin/python -m pytest -ra -q -p no:cacheprovider --timeout=900 --continue-on-collection-errors",
               "source_commits": [], "add_only": True},
     "engines": [{"name": "cxxvc", "path": "cxxvc/", "serves_properties": claimed,
                  "kind_free_text": "home-built deductive verifier for C++: clang-14 JSON AST of the real functions -> forward symbolic execution with sidecar contracts and loop invariants -> z3 (cvc5 fallback); finite-scope refutation; native replay harnesses"}],
     "checks": checks, "not_applicable": na,
     "notes": "Exit codes of every check: 0 all obligations discharged; 1 violation (VIOLATION line); 2 undecided; 3 extraction gap / internal error. Known findings: known_findings.json."}
json.dump(m, open('/verif/MANIFEST.json', 'w'), indent=1)
print("claimed:", claimed)
