#!/usr/bin/env python3
"""development helper: apply ad-hoc mutants to a scratch copy of /repo's include+src and run one contract module in dev mode.
  tools_devmut.py <module> <mutants.json> [Kernel ...]     mutants: [{"name","file","old","new"}]"""
import json, os, shutil, subprocess, sys, tempfile
VERIF = os.path.dirname(os.path.abspath(__file__))
mod, mj, names = sys.argv[1], sys.argv[2], sys.argv[3:]
muts = json.load(open(mj))
tmp = tempfile.mkdtemp(prefix="verif_devmut_")
try:
    scratch = os.path.join(tmp, "repo"); os.makedirs(scratch)
    for top in ("include", "src"):
        shutil.copytree(os.path.join("/repo", top), os.path.join(scratch, top), symlinks=True)
    for m in muts:
        p = os.path.join(scratch, m["file"]); orig = open(p).read()
        if orig.count(m["old"]) != 1:
            print("MUT %s STALE (%d)" % (m["name"], orig.count(m["old"]))); continue
        open(p, "w").write(orig.replace(m["old"], m["new"]))
        env = dict(os.environ, CXXVC_REPO=scratch, CXXVC_CACHE=os.path.join(tmp, "cache"), PYTHONPATH=VERIF)
        r = subprocess.run(["python3-vt", "-m", "cxxvc.dev", mod] + (m.get("kernels") or names), capture_output=True, text=True, env=env, cwd=VERIF)
        open(p, "w").write(orig)
        bad = [l for l in r.stdout.splitlines() if ("refuted" in l or "undecided" in l or "GAP" in l or "error" in l) and "['" in l or l.startswith("GAP")]
        print("MUT %s -> %s" % (m["name"], "CAUGHT" if any("refuted" in b for b in bad) else ("GAP/UNDECIDED" if bad else "SURVIVED")))
        for b in bad[:6]: print("     ", b.strip()[:200])
        if r.returncode != 0: print(r.stderr[-500:])
finally:
    shutil.rmtree(tmp, ignore_errors=True)
