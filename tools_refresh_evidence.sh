#!/bin/bash
# run every claimed check (quick tier) on the unchanged tree so that the committed evidence files describe it
cd /verif
if [ -n "$(git -C /repo status --porcelain)" ]; then echo "/repo working tree is not clean"; exit 2; fi
fail=0
for id in $(python3 -c "import json;print(' '.join(c['property_id'] for c in json.load(open('MANIFEST.json'))['checks']))"); do
  VERIF_SEED=1 ./check $id --tier quick > /tmp/w/refresh_$id.log 2>&1; rc=$?
  echo "$id exit=$rc $(tail -1 /tmp/w/refresh_$id.log | cut -c1-170)"
  [ $rc -ne 0 ] && fail=1
done
exit $fail
