// Bounded stand-in for C01 on build_ranked_graph / evaluate_impl (DESIGN.md 0.2, C01): every wiring program of at most
// N statements over {unary, binary, ternary, two-element-list} nodes whose inputs are chosen among the earlier
// statements' outputs (so the same producer may feed one consumer several times, and one list input may have two
// producers), plus every set of explicit rank dependencies on LATER statements (which forces real re-ordering and makes
// dependency cycles), is built by the real Wiring::finish and checked against an oracle computed from the program text:
//   * cyclic dependencies  <=> finish throws;
//   * otherwise every statement's node appears exactly once in the ranked graph, every dependency has
//     position(producer) < position(consumer), and every compiled GraphEdge has source_node < target_node;
//   * run for two cycles: within a cycle every node evaluates at most once and after each of its producers.
// usage: c01_ranking <N> [<max programs, 0 = all>] [<seed>]   exit 0 ok / 1 violation (first one printed as a replayable line)
#include <hgraph/lib/testing/eval_node.h>
#include <hgraph/lib/testing/record_replay.h>
#include <hgraph/lib/testing/runtime_support.h>
#include <hgraph/lib/std/std_operators.h>
#include <hgraph/types/graph_wiring.h>
#include <hgraph/types/static_node.h>
#include <array>
#include <cstdio>
#include <cstdlib>
#include <functional>
#include <optional>
#include <iostream>
#include <random>
#include <sstream>
#include <string>
#include <vector>
using namespace hgraph;
using namespace hgraph::testing;

namespace {
constexpr int MAXN = 5;
std::vector<int> g_log;      // evaluation log of the current cycle: statement ids in evaluation order
long g_cycle_marker = -1;
std::vector<std::vector<int>> g_cycles;

void log_eval(int k, DateTime now) {
    const long t = (long)(now - MIN_ST).count();
    if (t != g_cycle_marker) { g_cycle_marker = t; g_cycles.emplace_back(); }
    g_cycles.back().push_back(k);
}

constexpr const char *kNames[] = {"s0", "s1", "s2", "s3", "s4", "s5"};

template <int K> struct U { static constexpr auto name = kNames[K];
    static void eval(In<"x", TS<Int>> x, DateTime now, Out<TS<Int>> out) { log_eval(K, now); out.set(x.value() + 1); } };
template <int K> struct B { static constexpr auto name = kNames[K];
    static void eval(In<"x", TS<Int>> x, In<"y", TS<Int>> y, DateTime now, Out<TS<Int>> out) { log_eval(K, now); out.set(x.value() + y.value()); } };
template <int K> struct T { static constexpr auto name = kNames[K];
    static void eval(In<"x", TS<Int>> x, In<"y", TS<Int>> y, In<"z", TS<Int>> z, DateTime now, Out<TS<Int>> out) {
        log_eval(K, now); out.set(x.value() + y.value() + z.value()); } };
template <int K> struct L { static constexpr auto name = kNames[K];
    static void eval(In<"tsl", TSL<TS<Int>, 2>> tsl, DateTime now, Out<TS<Int>> out) {
        log_eval(K, now); out.set((tsl[0].valid() ? tsl[0].value() : 0) + (tsl[1].valid() ? tsl[1].value() : 0)); } };

struct Stmt { int kind; std::array<int, 3> in; };          // kind 0:U 1:B 2:T 3:L 4:P (binary, second input passive(...)) ; inputs are statement ids (0 = the source)
struct Program { std::vector<Stmt> stmts; std::vector<std::pair<int, int>> rank; };   // rank: (node, depends_on) with depends_on > node

int arity(int kind) { return kind == 0 ? 1 : kind == 1 ? 2 : kind == 2 ? 3 : 2; }
constexpr int KINDS = 5;

std::string show(const Program &p) {
    std::ostringstream o;
    for (std::size_t i = 0; i < p.stmts.size(); ++i) {
        const auto &s = p.stmts[i];
        o << "s" << (i + 1) << "=" << "UBTLP"[s.kind] << "(";
        for (int a = 0; a < arity(s.kind); ++a) o << (a ? "," : "") << "s" << s.in[a];
        o << ") ";
    }
    for (auto &[n, d] : p.rank) o << "rank(s" << n << " after s" << d << ") ";
    return o.str();
}

template <int K> Port<TS<Int>> make(Wiring &w, const Stmt &s, const std::vector<Port<TS<Int>>> &ports) {
    switch (s.kind) {
        case 0: return wire<U<K>>(w, ports[s.in[0]]);
        case 1: return wire<B<K>>(w, ports[s.in[0]], ports[s.in[1]]);
        case 2: return wire<T<K>>(w, ports[s.in[0]], ports[s.in[1]], ports[s.in[2]]);
        case 4: return wire<B<K>>(w, ports[s.in[0]], passive(ports[s.in[1]]));     // a passive input is still READ: its producer must come first
        default: return wire<L<K>>(w, {ports[s.in[0]], ports[s.in[1]]});
    }
}

const Program *g_program = nullptr;
struct G { static constexpr auto name = "g";
    static void compose(Wiring &w) {
        const Program &p = *g_program;
        std::vector<Port<TS<Int>>> ports;
        ports.push_back(wire<stdlib::replay_impl, TS<Int>>(w, Str{"a"}));
        for (std::size_t i = 0; i < p.stmts.size(); ++i) {
            switch (i) {
                case 0: ports.push_back(make<1>(w, p.stmts[i], ports)); break;
                case 1: ports.push_back(make<2>(w, p.stmts[i], ports)); break;
                case 2: ports.push_back(make<3>(w, p.stmts[i], ports)); break;
                case 3: ports.push_back(make<4>(w, p.stmts[i], ports)); break;
                default: ports.push_back(make<5>(w, p.stmts[i], ports)); break;
            }
        }
        for (auto &[n, d] : p.rank) { w.add_rank_dependency(ports[n].erased().peered_node(), ports[d].erased().peered_node()); }
    } };

// oracle: dependency digraph over statement ids 0..n
bool cyclic(const Program &p) {
    const int n = (int)p.stmts.size() + 1;
    std::vector<std::vector<int>> dep(n);            // dep[c] = producers of c
    for (int i = 1; i < n; ++i) for (int a = 0; a < arity(p.stmts[i - 1].kind); ++a) dep[i].push_back(p.stmts[i - 1].in[a]);
    for (auto &[c, d] : p.rank) dep[c].push_back(d);
    std::vector<int> state(n, 0);
    std::function<bool(int)> dfs = [&](int v) { state[v] = 1; for (int u : dep[v]) { if (state[u] == 1) return true; if (state[u] == 0 && dfs(u)) return true; } state[v] = 2; return false; };
    for (int v = 0; v < n; ++v) if (state[v] == 0 && dfs(v)) return true;
    return false;
}

std::string check(const Program &p, bool run) {
    g_program = &p;
    const int n = (int)p.stmts.size() + 1;
    const bool cyc = cyclic(p);
    std::optional<GraphBuilder> gb;
    try { gb.emplace(build_graph<G>()); }
    catch (const std::exception &e) { return cyc ? std::string{} : std::string{"acyclic program rejected: "} + e.what(); }
    if (cyc) return "a dependency cycle was not rejected";
    std::vector<int> pos(n, -1);
    int index = 0;
    for (const auto &node : gb->nodes()) {
        const auto *meta = node.type().schema();
        const std::string nm = meta != nullptr && meta->display_name != nullptr ? meta->display_name : "?";
        int id = -1;
        if (nm.size() == 2 && nm[0] == 's') id = nm[1] - '0'; else id = 0;      // the replay source
        if (id < 0 || id >= n) return "unknown node " + nm;
        if (pos[id] != -1) return "statement s" + std::to_string(id) + " appears twice in the ranked graph";
        pos[id] = index++;
    }
    for (int i = 0; i < n; ++i) if (pos[i] == -1) return "statement s" + std::to_string(i) + " is missing from the ranked graph";
    for (int i = 1; i < n; ++i) for (int a = 0; a < arity(p.stmts[i - 1].kind); ++a) {
        const int pr = p.stmts[i - 1].in[a];
        if (!(pos[pr] < pos[i])) return "consumer s" + std::to_string(i) + " ranked at " + std::to_string(pos[i]) + " not after its producer s" + std::to_string(pr) + " at " + std::to_string(pos[pr]);
    }
    for (auto &[c, d] : p.rank) if (!(pos[d] < pos[c])) return "rank dependency violated: s" + std::to_string(c) + " not after s" + std::to_string(d);
    for (const auto &e : gb->edges()) {
        if (!(graph_edge_source_node(e.source_node) < e.target_node)) return "compiled edge goes backwards: " + std::to_string(graph_edge_source_node(e.source_node)) + " -> " + std::to_string(e.target_node);
    }
    if (!run) return {};
    g_cycles.clear(); g_cycle_marker = -1;
    set_replay_values<Int>(gb->global_state(), "a", {1, 2});
    try { auto ex = run_graph(std::move(*gb), MIN_ST, MIN_ST + TimeDelta{5}); }
    catch (const std::exception &e) { return std::string{"run failed: "} + e.what(); }
    if (g_cycles.size() != 2) return "expected two evaluation cycles, saw " + std::to_string(g_cycles.size());
    for (const auto &cyc_log : g_cycles) {
        std::vector<int> at(n, -1);
        for (std::size_t k = 0; k < cyc_log.size(); ++k) {
            if (at[cyc_log[k]] != -1) return "s" + std::to_string(cyc_log[k]) + " evaluated twice in one cycle";
            at[cyc_log[k]] = (int)k;
        }
        for (int i = 1; i < n; ++i) {
            if (at[i] == -1) return "s" + std::to_string(i) + " was not evaluated in a cycle in which its source ticked";
            for (int a = 0; a < arity(p.stmts[i - 1].kind); ++a) {
                const int pr = p.stmts[i - 1].in[a];
                if (pr != 0 && !(at[pr] < at[i])) return "s" + std::to_string(i) + " evaluated before its producer s" + std::to_string(pr);
            }
        }
    }
    return {};
}

long g_count = 0, g_cyclic = 0, g_leaf = 0;
long g_shard = 0, g_shards = 1;      // exhaustive mode: statement lists are dealt round-robin to shards
bool enumerate(Program &p, int n, std::size_t i, bool run_all) {
    if (i == (std::size_t)n) {
        if ((g_leaf++ % g_shards) != g_shard) return true;
        // every subset of backward rank dependencies (node i depends on a LATER statement j)
        std::vector<std::pair<int, int>> cand;
        for (int c = 1; c <= n; ++c) for (int d = c + 1; d <= n; ++d) cand.emplace_back(c, d);
        for (unsigned mask = 0; mask < (1u << cand.size()); ++mask) {
            if (__builtin_popcount(mask) > 2) continue;
            p.rank.clear();
            for (std::size_t b = 0; b < cand.size(); ++b) if (mask & (1u << b)) p.rank.push_back(cand[b]);
            ++g_count;
            if (cyclic(p)) ++g_cyclic;
            const std::string err = check(p, run_all || mask == 0);
            if (!err.empty()) { std::cout << "FAILING-PROGRAM " << show(p) << ":: " << err << "\n"; return false; }
        }
        return true;
    }
    const int avail = (int)i + 1;     // statements 0..i are available as inputs
    for (int kind = 0; kind < KINDS; ++kind) {
        const int ar = arity(kind);
        int total = 1; for (int a = 0; a < ar; ++a) total *= avail;
        for (int code = 0; code < total; ++code) {
            Stmt s{kind, {0, 0, 0}};
            int c = code; for (int a = 0; a < ar; ++a) { s.in[a] = c % avail; c /= avail; }
            p.stmts.push_back(s);
            const bool ok = enumerate(p, n, i + 1, run_all);
            p.stmts.pop_back();
            if (!ok) return false;
        }
    }
    return true;
}
}  // namespace

int main(int argc, char **argv) {
    const int n = argc > 1 ? std::atoi(argv[1]) : 3;
    const long sample = argc > 2 ? std::atol(argv[2]) : 0;
    const unsigned seed = argc > 3 ? (unsigned)std::atol(argv[3]) : 1;
    if (const char *sh = std::getenv("SHARD")) { if (std::sscanf(sh, "%ld/%ld", &g_shard, &g_shards) != 2 || g_shards < 1) { g_shard = 0; g_shards = 1; } }
    if (n < 1 || n > MAXN) { std::cerr << "N out of range\n"; return 3; }
    stdlib::register_standard_operators();
    bool ok = true;
    if (sample == 0) {
        for (int m = (g_shards > 1 ? n : 1); m <= n && ok; ++m) { Program p; ok = enumerate(p, m, 0, m <= 3); }
    } else {
        std::mt19937 rng(seed);
        for (long it = 0; it < sample && ok; ++it) {
            Program p;
            for (int i = 0; i < n; ++i) {
                Stmt s{(int)(rng() % KINDS), {0, 0, 0}};
                for (int a = 0; a < 3; ++a) s.in[a] = (int)(rng() % (i + 1));
                p.stmts.push_back(s);
            }
            for (int c = 1; c <= n; ++c) for (int d = c + 1; d <= n; ++d) if (rng() % 6 == 0 && p.rank.size() < 3) p.rank.emplace_back(c, d);
            ++g_count; if (cyclic(p)) ++g_cyclic;
            const std::string err = check(p, true);
            if (!err.empty()) { std::cout << "FAILING-PROGRAM " << show(p) << ":: " << err << "\n"; ok = false; }
        }
    }
    std::cout << "PROGRAMS " << g_count << " cyclic " << g_cyclic << " bound N=" << n << (sample ? " sampled" : " exhaustive") << "\n";
    std::cout << (ok ? "OK" : "VIOLATION") << "\n";
    return ok ? 0 : 1;
}
