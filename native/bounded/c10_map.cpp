// Bounded stand-in for C10 on map_ as a whole (key reconciliation, slot bitmaps, child scheduling, output publication):
// every history over a small key universe is replayed into eval_node<map_>(fn<KeyCounter>, TSD<Int,TS<Int>>) and the
// recorded output tick stream is compared, cycle by cycle, with running the function independently per key:
//   f(key, ts) = key*1000000 + ts*100 + (number of evaluations of THIS instance)
// so a child that is evaluated without its own input ticking, that is not evaluated when it ticks, that keeps state across a
// remove / re-add of its key, or that sees another key's value, changes the output.
// families:  small <H>            every history of H cycles over 3 keys (per key and cycle: nothing / set / remove-if-present)
//            sparse <N>           N keys created in one cycle, all but a few removed (slots far above the live entry count),
//                                 then every subset of the survivors ticks, then new keys arrive
//            random <H> <n> <seed> n sampled histories of H cycles over 6 keys
//            keys <H> [n seed]    explicit __keys__ (a TSS) next to ONE multiplexed dictionary over 2 keys: per key and cycle the key set
//                                 op (nothing / add / remove) x the dictionary op (nothing / set / remove); a child exists exactly while its
//                                 key is in __keys__, is evaluated when its element ticks or (re)appears or when it is created next to an
//                                 existing element, and keeps its state while only the element leaves and returns
// exit 0 ok / 1 violation (first failing history printed as FAILING-PROGRAM ...)      (SHARD=i/k splits 'small')
#include <hgraph/lib/testing/eval_node.h>
#include <hgraph/lib/testing/record_replay.h>
#include <hgraph/lib/testing/runtime_support.h>
#include <hgraph/lib/std/std_operators.h>
#include <hgraph/types/graph_wiring.h>
#include <hgraph/types/static_node.h>
#include <hgraph/types/wired_fn.h>
#include <hgraph/types/subgraph_wiring.h>
#include <cstdio>
#include <cstdlib>
#include <iostream>
#include <map>
#include <optional>
#include <random>
#include <set>
#include <sstream>
#include <string>
#include <vector>
using namespace hgraph;
using namespace hgraph::testing;

namespace {
using VS = std::vector<std::optional<Value>>;
using DI = TSD<Int, TS<Int>>;

struct KeyCounter { static constexpr auto name = "c10_key_counter";
    static void eval(In<"key", TS<Int>> key, In<"ts", TS<Int>> ts, State<Int> count, Out<TS<Int>> out) {
        count.set(count.get() + 1);
        out.set(key.value() * 1000000 + ts.value() * 100 + count.get());
    } };

struct CycleOps { std::map<Int, Int> sets; std::vector<Int> removes; };

Value delta_of(const std::map<Int, Int> &m, const std::vector<Int> &r) {
    std::map<Int, static_node_detail::delta_input_t<TS<Int>>> mm;
    for (auto &[k, v] : m) mm.emplace(k, v);
    return static_node_detail::build_dict_delta<Int, TS<Int>>(mm, r);
}
std::string show(const std::optional<Value> &v) { return v ? v->view().to_string() : std::string("none"); }

long g_count = 0;

// runs the history and compares with the per-key oracle; ops must be effective (removes only of live keys)
bool run_history(const std::vector<CycleOps> &h, const std::string &label) {
    ++g_count;
    VS in, expected;
    std::map<Int, Int> evals;      // live key -> evaluations of its instance so far
    bool started = false;
    for (const CycleOps &c : h) {
        if (c.sets.empty() && c.removes.empty() && started) { in.emplace_back(std::nullopt); expected.emplace_back(std::nullopt); continue; }
        started = true;
        in.emplace_back(delta_of(c.sets, c.removes));
        std::map<Int, Int> out_sets;
        for (Int k : c.removes) evals.erase(k);
        for (auto &[k, v] : c.sets) { const Int n = ++evals[k]; out_sets[k] = k * 1000000 + v * 100 + n; }
        expected.emplace_back(delta_of(out_sets, c.removes));
    }
    VS out;
    try { out = eval_node<stdlib::map_, DI>(fn<KeyCounter>(), in); }
    catch (const std::exception &e) { std::cout << "FAILING-PROGRAM " << label << ":: run failed: " << e.what() << "\n"; return false; }
    const std::size_t n = std::max(out.size(), expected.size());
    const std::optional<Value> none{};
    for (std::size_t i = 0; i < n; ++i) {
        const auto &a = i < out.size() ? out[i] : none;
        const auto &e = i < expected.size() ? expected[i] : none;
        const bool same = a.has_value() == e.has_value() && (!a.has_value() || a->equals(*e));
        if (!same) {
            std::cout << "FAILING-PROGRAM " << label << ":: cycle " << i << " map_ output tick " << show(a).substr(0, 600)
                      << " but the function run independently per key gives " << show(e).substr(0, 600) << "\n";
            return false;
        }
    }
    return true;
}

// ---- explicit __keys__ family
using KS = TSS<Int>;
struct KeysMapG { static constexpr auto name = "c10_keys_map_g";
    static Port<DI> compose(Wiring &w, Port<KS> keys, Port<DI> values) {
        return wire<stdlib::map_>(w, fn<KeyCounter>(), values, arg<"__keys__">(keys)).as<DI>(); } };

struct KCycle { std::vector<Int> key_add, key_remove; std::map<Int, Int> sets; std::vector<Int> removes; };

bool empty_tick(const std::optional<Value> &v) {
    if (!v.has_value()) return true;
    return v->view().to_string() == "{removed: {}, modified: {}}";
}

bool run_keys_history(const std::vector<KCycle> &h, const std::string &label) {
    ++g_count;
    VS kin, vin, expected;
    std::set<Int> keys; std::map<Int, Int> dict; std::map<Int, Int> count; std::set<Int> published;
    for (const KCycle &c : h) {
        std::vector<Int> out_removed; std::map<Int, Int> out_sets; std::set<Int> created;
        for (Int k : c.key_remove) { keys.erase(k); count.erase(k); if (published.erase(k)) out_removed.push_back(k); }
        for (Int k : c.key_add) { keys.insert(k); count[k] = 0; created.insert(k); }
        for (Int k : c.removes) dict.erase(k);
        for (auto &[k, v] : c.sets) dict[k] = v;
        for (Int k : keys) {
            if (!dict.count(k)) continue;
            if (c.sets.count(k) || created.count(k)) { const Int n = ++count[k]; out_sets[k] = k * 1000000 + dict[k] * 100 + n; published.insert(k); }
        }
        if (c.key_add.empty() && c.key_remove.empty()) kin.emplace_back(std::nullopt);
        else kin.emplace_back(set_delta<Int>(c.key_add, c.key_remove));
        if (c.sets.empty() && c.removes.empty()) vin.emplace_back(std::nullopt); else vin.emplace_back(delta_of(c.sets, c.removes));
        if (out_sets.empty() && out_removed.empty()) expected.emplace_back(std::nullopt); else expected.emplace_back(delta_of(out_sets, out_removed));
    }
    VS out;
    try { out = eval_node<KeysMapG>(kin, vin); }
    catch (const std::exception &e) { std::cout << "FAILING-PROGRAM " << label << ":: run failed: " << e.what() << "\n"; return false; }
    const std::size_t n = std::max(out.size(), expected.size());
    const std::optional<Value> none{};
    for (std::size_t i = 0; i < n; ++i) {
        const auto &a = i < out.size() ? out[i] : none;
        const auto &e = i < expected.size() ? expected[i] : none;
        // a tick that carries nothing (the initial empty publication of the dictionary) is not part of any key's stream
        const bool same = (empty_tick(a) && empty_tick(e)) || (a.has_value() && e.has_value() && a->equals(*e));
        if (!same) {
            std::cout << "FAILING-PROGRAM " << label << ":: cycle " << i << " map_ output tick " << show(a).substr(0, 400)
                      << " but the function run independently per key of __keys__ gives " << show(e).substr(0, 400) << "\n";
            return false;
        }
    }
    return true;
}

// codes per cycle: per key (2 keys) a digit 0..8 = key-set op * 3 + dictionary op   (ops that do not apply are dropped)
bool run_keys_codes(const std::vector<std::vector<int>> &codes) {
    std::set<Int> keys, dict; std::vector<KCycle> h; Int tick = 0; std::ostringstream text;
    for (const auto &c : codes) {
        KCycle ops; ++tick; text << "[";
        for (std::size_t k = 0; k < c.size(); ++k) {
            const int kop = c[k] / 3, dop = c[k] % 3;
            if (kop == 1 && !keys.count((Int)k)) { ops.key_add.push_back((Int)k); keys.insert((Int)k); text << "keys+" << k << ";"; }
            else if (kop == 2 && keys.count((Int)k)) { ops.key_remove.push_back((Int)k); keys.erase((Int)k); text << "keys-" << k << ";"; }
            if (dop == 1) { ops.sets[(Int)k] = tick; dict.insert((Int)k); text << "set(" << k << "," << tick << ");"; }
            else if (dop == 2 && dict.count((Int)k)) { ops.removes.push_back((Int)k); dict.erase((Int)k); text << "remove(" << k << ");"; }
        }
        text << "] ";
        h.push_back(std::move(ops));
    }
    return run_keys_history(h, "keys " + text.str());
}

std::string text_of(const std::vector<CycleOps> &h) {
    std::ostringstream s;
    for (const auto &c : h) { s << "["; for (auto &[k, v] : c.sets) s << "set(" << k << "," << v << ");"; for (Int k : c.removes) s << "remove(" << k << ");"; s << "] "; }
    return s.str();
}

// codes: per key 0 nothing, 1 set, 2 remove (dropped when the key is not live)
bool run_codes(const std::vector<std::vector<int>> &codes, const std::string &family) {
    std::set<Int> live; std::vector<CycleOps> h; Int tick = 0;
    for (const auto &c : codes) {
        CycleOps ops; ++tick;
        for (std::size_t k = 0; k < c.size(); ++k) {
            if (c[k] == 1) { ops.sets[(Int)k] = tick; live.insert((Int)k); }
            else if (c[k] == 2 && live.count((Int)k)) { ops.removes.push_back((Int)k); live.erase((Int)k); }
        }
        h.push_back(std::move(ops));
    }
    return run_history(h, family + " " + text_of(h));
}
}  // namespace

int main(int argc, char **argv) {
    const std::string family = argc > 1 ? argv[1] : "small";
    long shard = 0, shards = 1;
    if (const char *sh = std::getenv("SHARD")) { if (std::sscanf(sh, "%ld/%ld", &shard, &shards) != 2 || shards < 1) { shard = 0; shards = 1; } }
    stdlib::register_standard_operators();
    bool ok = true;
    if (family == "small" || family == "random") {
        const int H = argc > 2 ? std::atoi(argv[2]) : 2;
        const long sample = family == "random" ? (argc > 3 ? std::atol(argv[3]) : 1000) : 0;
        std::mt19937 rng(argc > 4 ? (unsigned)std::atol(argv[4]) : 1);
        const int K = sample ? 6 : 3;
        std::vector<std::vector<int>> shapes;
        { long n = 1; for (int i = 0; i < K; ++i) n *= 3;
          for (long code = 0; code < n; ++code) { std::vector<int> c; long x = code; for (int i = 0; i < K; ++i) { c.push_back((int)(x % 3)); x /= 3; } shapes.push_back(c); } }
        std::vector<std::size_t> idx(H, 0);
        long leaf = 0;
        auto next = [&]() { for (auto &d : idx) { if (++d < shapes.size()) return true; d = 0; } return false; };
        do {
            if (sample) for (auto &d : idx) d = rng() % shapes.size();
            else if ((leaf++ % shards) != shard) continue;
            std::vector<std::vector<int>> codes; for (auto i : idx) codes.push_back(shapes[i]);
            ok = run_codes(codes, family);
        } while (ok && (sample ? g_count < sample : next()));
    } else if (family == "keys") {
        const int H = argc > 2 ? std::atoi(argv[2]) : 2;
        const long sample = argc > 3 ? std::atol(argv[3]) : 0;
        std::mt19937 rng(argc > 4 ? (unsigned)std::atol(argv[4]) : 1);
        std::vector<std::size_t> idx(H, 0);
        long leaf = 0;
        auto next = [&]() { for (auto &d : idx) { if (++d < 81) return true; d = 0; } return false; };
        do {
            if (sample) for (auto &d : idx) d = rng() % 81;
            else if ((leaf++ % shards) != shard) continue;
            std::vector<std::vector<int>> codes; for (auto i : idx) codes.push_back({(int)(i % 9), (int)(i / 9)});
            ok = run_keys_codes(codes);
        } while (ok && (sample ? g_count < sample : next()));
    } else {
        const Int N = argc > 2 ? std::atol(argv[2]) : 70;
        const std::vector<Int> candidates{0, 63, 64, N - 1};
        for (unsigned keep = 1; ok && keep < 16; ++keep) {
            std::vector<Int> survivors; for (unsigned b = 0; b < 4; ++b) if (keep & (1u << b)) survivors.push_back(candidates[b]);
            for (unsigned ticks = 0; ok && ticks < (1u << survivors.size()); ++ticks) {
                std::vector<CycleOps> h(5);
                std::set<Int> keep_set(survivors.begin(), survivors.end());
                for (Int k = 0; k < N; ++k) { h[0].sets[k] = k; if (!keep_set.count(k)) h[1].removes.push_back(k); }
                for (std::size_t b = 0; b < survivors.size(); ++b) if (ticks & (1u << b)) h[2].sets[survivors[b]] = 7;
                for (Int k : survivors) h[3].sets[k] = 8;
                h[4].sets[N + 5] = 9; h[4].sets[survivors.front()] = 9;
                std::ostringstream label;
                label << "sparse N=" << N << " survivors {"; for (Int k : survivors) label << k << ","; label << "} cycle-2 ticks mask " << ticks;
                ok = run_history(h, label.str());
            }
        }
    }
    std::cout << "PROGRAMS " << g_count << " family " << family << "\n";
    std::cout << (ok ? "OK" : "VIOLATION") << "\n";
    return ok ? 0 : 1;
}
