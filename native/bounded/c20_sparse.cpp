// Bounded stand-in for C20 on the SPARSE (absolute-time) in-memory recording: replay(":memory:" recording) started at any cycle of
// the recorded window reproduces, from that cycle on, exactly the recorded ticks at their own times (a tick AT the start time
// included; ticks before it are gone).   replay("in") -> sparse_record(":memory:rec.out")   then
// replay("out", recordable_id "rec") -> dense_record("again") in a second run that starts at cycle s.
// enumerated: every tick pattern of a TS<Int> over H cycles (2^H) x every start cycle 0..H.   exit 0 ok / 1 violation
#include <hgraph/lib/std/operators/impl/record_replay_memory_impl.h>
#include <hgraph/lib/testing/record_replay.h>
#include <hgraph/lib/testing/runtime_support.h>
#include <hgraph/lib/std/std_operators.h>
#include <hgraph/types/graph_wiring.h>
#include <hgraph/types/static_node.h>
#include <cstdlib>
#include <iostream>
#include <optional>
#include <string>
#include <vector>
using namespace hgraph;
using namespace hgraph::testing;
using Deltas = std::vector<std::optional<Value>>;
using S = TS<Int>;

struct RecordGraph { static constexpr auto name = "record_graph";
    static void compose(Wiring &w) { auto src = wire<stdlib::replay_impl, S>(w, Str{"in"}); wire<stdlib::sparse_record_impl>(w, src, Str{"out"}, Str{"rec"}); } };
struct ReplayGraph { static constexpr auto name = "replay_graph";
    static void compose(Wiring &w) { auto src = wire<stdlib::replay_impl, S>(w, Str{"out"}, Str{"rec"}); wire<stdlib::dense_record_impl>(w, src, Str{"again"}); } };

static std::string show(const std::optional<Value> &v) { return v.has_value() ? v->view().to_string() : std::string("-"); }

int main(int argc, char **argv) {
    const int H = argc > 1 ? std::atoi(argv[1]) : 5;
    stdlib::register_standard_operators();
    long count = 0; bool ok = true;
    for (unsigned pattern = 1; ok && pattern < (1u << H); ++pattern) {
        std::vector<std::optional<Int>> in;
        std::string text;
        for (int c = 0; c < H; ++c) { if (pattern & (1u << c)) { in.emplace_back((Int)(10 + c)); text += std::to_string(10 + c) + " "; } else { in.emplace_back(std::nullopt); text += "- "; } }
        Value recording;
        {
            GraphBuilder gb = build_graph<RecordGraph>();
            set_replay_values<Int>(gb.global_state(), "in", in);
            GraphExecutorBuilder eb;
            eb.graph_builder(std::move(gb)).start_time(MIN_ST).end_time(MIN_ST + TimeDelta{(long)H + 5});
            GraphExecutorValue ex = eb.make_executor();
            ex.view().run();
            recording = Value{ex.view().graph().global_state().get(":memory:rec.out")};
        }
        for (int start = 0; ok && start <= H; ++start) {
            ++count;
            std::vector<std::optional<Int>> again;
            try {
                GraphBuilder gb = build_graph<ReplayGraph>();
                gb.global_state().set(":memory:rec.out", recording);
                GraphExecutorBuilder eb;
                eb.graph_builder(std::move(gb)).start_time(MIN_ST + MIN_TD * static_cast<std::int64_t>(start)).end_time(MIN_ST + TimeDelta{(long)H + 5});
                GraphExecutorValue ex = eb.make_executor();
                ex.view().run();
                again = get_recorded_values<Int>(ex.view().graph().global_state(), "again");
            } catch (const std::exception &e) {
                std::cout << "FAILING-PROGRAM sparse recording [" << text << "] replayed from cycle " << start << ":: run failed: " << e.what() << "\n"; ok = false; break;
            }
            for (int c = 0; c < H + 2; ++c) {
                const std::optional<Int> want = (c >= start && c < H) ? in[(std::size_t)c] : std::nullopt;
                const std::optional<Int> got = (std::size_t)c < again.size() ? again[(std::size_t)c] : std::nullopt;
                if (want != got) {
                    std::cout << "FAILING-PROGRAM sparse recording [" << text << "] replayed from cycle " << start << ":: cycle " << c << " replayed "
                              << (got ? std::to_string(*got) : std::string("-")) << " but the recording holds " << (want ? std::to_string(*want) : std::string("-")) << "\n";
                    ok = false; break;
                }
            }
        }
    }
    std::cout << "PROGRAMS " << count << " sparse-replay H=" << H << "\n" << (ok ? "OK" : "VIOLATION") << "\n";
    return ok ? 0 : 1;
}
