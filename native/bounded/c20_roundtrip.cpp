// Bounded stand-in for C20 on the record -> replay path as a whole (record_replay nodes, capture_delta's observability
// tests, apply_delta for every shape): every history of H cycles over a small universe is executed by a real source node
// through the public Out<> API and recorded (run 1: tick stream r1 + the value after each tick v1); the recording is then
// replayed into a fresh graph (run 2: tick stream r2 + values v2).  The property's own equivalence is the oracle:
// r2 == r1 (same cycles, same per-tick deltas) and v2 == v1 (same values); no model of the delta semantics is involved.
// usage: c20_roundtrip <shape: ts|tss|tsd|tsl3|tsldyn|tsb|tsw43|tsw31|tsw22> <H> [<max histories, 0 = all>] [<seed>]   (SHARD=i/k)
// exit 0 ok / 1 violation (first failing history printed as FAILING-PROGRAM ...)
#include <hgraph/lib/testing/eval_node.h>
#include <hgraph/lib/testing/record_replay.h>
#include <hgraph/lib/testing/runtime_support.h>
#include <hgraph/lib/std/std_operators.h>
#include <hgraph/types/graph_wiring.h>
#include <hgraph/types/static_node.h>
#include <hgraph/types/time_series/ts_delta.h>
#include <algorithm>
#include <cstdio>
#include <cstdlib>
#include <iostream>
#include <optional>
#include <random>
#include <sstream>
#include <string>
#include <vector>
using namespace hgraph;
using namespace hgraph::testing;

namespace {
using Deltas = std::vector<std::optional<Value>>;
struct Op { int kind; Int key; Int arg; };      // kind 0 set/add/push, 1 remove/erase
using Cycle = std::vector<Op>;
const std::vector<Cycle> *g_history = nullptr;

using TSL3 = TSL<TS<Int>, 3>;
using TSLD = TSL<TS<Int>>;
using PairB = TSB<"C20Pair", Field<"a", TS<Int>>, Field<"b", TS<Int>>>;
using W43 = TSW<Int, 4, 3>;
using W31 = TSW<Int, 3, 1>;
using W22 = TSW<Int, 2, 2>;

template <typename S> inline constexpr bool is_window = std::is_same_v<S, W43> || std::is_same_v<S, W31> || std::is_same_v<S, W22>;
template <typename S> struct Apply;
template <> struct Apply<TS<Int>> { static void run(Out<TS<Int>> &out, const Op &o) { out.set(o.arg); } };
template <> struct Apply<TSS<Int>> { static void run(Out<TSS<Int>> &out, const Op &o) { if (o.kind == 0) out.add(o.key); else out.remove(o.key); } };
template <> struct Apply<TSD<Int, TS<Int>>> { static void run(Out<TSD<Int, TS<Int>>> &out, const Op &o) { if (o.kind == 0) out.set(o.key, o.arg); else (void)out.erase(o.key); } };
template <> struct Apply<TSL3> { static void run(Out<TSL3> &out, const Op &o) { out.set((std::size_t)o.key, o.arg); } };
template <> struct Apply<TSLD> { static void run(Out<TSLD> &out, const Op &o) { out.set((std::size_t)o.key, o.arg); } };
template <> struct Apply<PairB> { static void run(Out<PairB> &out, const Op &o) { if (o.key == 0) out.field<"a">().set(o.arg); else out.field<"b">().set(o.arg); } };
template <> struct Apply<W43> { static void run(Out<W43> &out, const Op &o) { out.push(o.arg); } };
template <> struct Apply<W31> { static void run(Out<W31> &out, const Op &o) { out.push(o.arg); } };
template <> struct Apply<W22> { static void run(Out<W22> &out, const Op &o) { out.push(o.arg); } };

template <typename S> struct Source { static constexpr auto name = "c20_source";
    static void eval(In<"c", TS<Int>> c, Out<S> out) { for (const Op &o : (*g_history)[(std::size_t)c.value()]) Apply<S>::run(out, o); } };

// set / dictionary text "{a, b}" with the elements sorted: iteration order is slot order, which is not part of the value
std::string canonical(const std::string &s) {
    if (s.size() < 2 || s.front() != '{' || s.back() != '}' || s.find('{', 1) != std::string::npos) return s;
    std::vector<std::string> parts; std::string cur;
    for (std::size_t i = 1; i + 1 < s.size(); ++i) {
        if (s[i] == ',' && i + 1 < s.size() && s[i + 1] == ' ') { parts.push_back(cur); cur.clear(); ++i; } else cur += s[i];
    }
    if (!cur.empty()) parts.push_back(cur);
    std::sort(parts.begin(), parts.end());
    std::string out = "{"; for (std::size_t i = 0; i < parts.size(); ++i) out += (i ? ", " : "") + parts[i]; return out + "}";
}

// the value after the tick, as text (validity included); windows also list their buffered values below min size
template <typename S> struct Contents { static constexpr auto name = "c20_contents";
    static void eval(In<"x", S, InputValidity::Unchecked> x, Out<TS<Str>> out) {
        const TSInputView &in = x.base();
        std::string s = in.valid() ? canonical(in.value().to_string()) : std::string("<invalid>");
        if constexpr (is_window<S>) { s += " buffered:"; for (auto v : x.values()) s += " " + v.to_string(); }
        out.set(Str{s});
    } };

template <typename S> struct G1 { static constexpr auto name = "c20_g1";
    static void compose(Wiring &w) {
        auto src = wire<Source<S>>(w, wire<stdlib::replay_impl, TS<Int>>(w, Str{"steps"}));
        wire<stdlib::dense_record_impl>(w, src, Str{"r1"});
        wire<stdlib::dense_record_impl>(w, wire<Contents<S>>(w, src), Str{"v1"});
    } };
template <typename S> struct G2 { static constexpr auto name = "c20_g2";
    static void compose(Wiring &w) {
        auto src = wire<stdlib::replay_impl, S>(w, Str{"r1"});
        wire<stdlib::dense_record_impl>(w, src, Str{"r2"});
        wire<stdlib::dense_record_impl>(w, wire<Contents<S>>(w, src), Str{"v2"});
    } };

std::string show(const Deltas &d) { std::string s; for (auto &v : d) s += (v ? v->to_string() : std::string("none")) + " | "; return s; }
bool same(const Deltas &a, const Deltas &b) {
    if (a.size() != b.size()) return false;
    for (std::size_t i = 0; i < a.size(); ++i) {
        if (a[i].has_value() != b[i].has_value()) return false;
        if (a[i].has_value() && !a[i]->view().equals(b[i]->view())) return false;
    }
    return true;
}

long g_count = 0;
// Inputs that fail ONLY in the way named by a class are counted and reported as "KNOWN-CLASS <id> <count> :: <example>";
// the driver decides from /verif/known_findings.json whether that class is a listed finding (otherwise it is a violation).
long g_known_empty_tick = 0;
std::string g_known_empty_tick_example;

bool empty_structural_delta(const std::optional<Value> &v) {
    if (!v.has_value()) return false;
    const std::string s = v->to_string();
    return s == "{added: {}, removed: {}}" || s == "{removed: {}, modified: {}}";
}

template <typename S> bool run_history(const std::vector<Cycle> &h, const std::string &shape) {
    ++g_count;
    g_history = &h;
    std::ostringstream text;
    text << shape << " ";
    for (const auto &c : h) { text << "["; for (const auto &o : c) text << (o.kind == 0 ? "set(" : "remove(") << o.key << "," << o.arg << ");"; text << "] "; }
    Deltas r1, v1, r2, v2;
    try {
        auto gb = build_graph<G1<S>>();
        std::vector<std::optional<Int>> ticks; for (std::size_t i = 0; i < h.size(); ++i) ticks.emplace_back((Int)i);
        set_replay_values<Int>(gb.global_state(), "steps", ticks);
        auto ex = run_graph(std::move(gb), MIN_ST, MIN_ST + TimeDelta{(long)h.size() + 2});
        auto gs = ex.view().graph().global_state();
        r1 = get_recorded_deltas(gs, "r1"); v1 = get_recorded_deltas(gs, "v1");
        auto gb2 = build_graph<G2<S>>();
        set_replay_deltas(gb2.global_state(), "r1", r1);
        auto ex2 = run_graph(std::move(gb2), MIN_ST, MIN_ST + TimeDelta{(long)h.size() + 2});
        auto gs2 = ex2.view().graph().global_state();
        r2 = get_recorded_deltas(gs2, "r2"); v2 = get_recorded_deltas(gs2, "v2");
    } catch (const std::exception &e) { std::cout << "FAILING-PROGRAM " << text.str() << ":: run failed: " << e.what() << "\n"; return false; }
    // trailing cycles without a tick are not part of a recording: compare up to the longer one with "none" padding
    auto pad = [](Deltas &a, std::size_t n) { while (a.size() < n) a.emplace_back(std::nullopt); };
    const std::size_t n = std::max(std::max(r1.size(), r2.size()), std::max(v1.size(), v2.size()));
    pad(r1, n); pad(r2, n); pad(v1, n); pad(v2, n);
    if (!same(r2, r1) || !same(v2, v1)) {
        // class empty-structural-tick-not-replayed: a tick of an ALREADY VALID set / dictionary whose recorded delta is empty
        // is present in the recording and absent from the replay; nothing else differs
        Deltas nr1 = r1, nv1 = v1;
        bool seen_tick = false, any = false;
        for (std::size_t i = 0; i < n; ++i) {
            if (seen_tick && empty_structural_delta(nr1[i]) && !r2[i].has_value() && !v2[i].has_value()) { nr1[i].reset(); nv1[i].reset(); any = true; }
            if (r1[i].has_value()) seen_tick = true;
        }
        if (any && same(r2, nr1) && same(v2, nv1)) {
            if (g_known_empty_tick++ == 0) g_known_empty_tick_example = text.str() + ":: recorded ticks " + show(r1) + " but the replay ticks " + show(r2);
            return true;
        }
    }
    if (!same(r2, r1)) {
        std::cout << "FAILING-PROGRAM " << text.str() << ":: recorded ticks " << show(r1) << " but the replay ticks " << show(r2) << "\n";
        return false;
    }
    if (!same(v2, v1)) {
        std::cout << "FAILING-PROGRAM " << text.str() << ":: original values " << show(v1) << " but replayed values " << show(v2) << "\n";
        return false;
    }
    return true;
}
}  // namespace

int main(int argc, char **argv) {
    const std::string shape = argc > 1 ? argv[1] : "tsl3";
    const int H = argc > 2 ? std::atoi(argv[2]) : 3;
    const long sample = argc > 3 ? std::atol(argv[3]) : 0;
    std::mt19937 rng(argc > 4 ? (unsigned)std::atol(argv[4]) : 1);
    long shard = 0, shards = 1;
    if (const char *sh = std::getenv("SHARD")) { if (std::sscanf(sh, "%ld/%ld", &shard, &shards) != 2 || shards < 1) { shard = 0; shards = 1; } }
    stdlib::register_standard_operators();
    (void)TypeRegistry::instance().register_scalar<Int>("int");
    // per-cycle shapes: every subset of the per-key operations (a key is touched at most once per cycle)
    std::vector<std::vector<Op>> per_key;
    if (shape == "ts") per_key = {{{0, 0, 7}, {0, 0, 8}}};
    else if (shape == "tss") per_key = {{{0, 1, 0}, {1, 1, 0}}, {{0, 2, 0}, {1, 2, 0}}};
    else if (shape == "tsd") per_key = {{{0, 1, 10}, {0, 1, 11}, {1, 1, 0}}, {{0, 2, 20}, {1, 2, 0}}};
    else if (shape == "tsl3" || shape == "tsldyn") per_key = {{{0, 0, 10}, {0, 0, 11}}, {{0, 1, 20}}, {{0, 2, 30}}};
    else if (shape == "tsb") per_key = {{{0, 0, 10}, {0, 0, 11}}, {{0, 1, 20}, {0, 1, 21}}};
    else per_key = {{{0, 0, 1}, {0, 0, 2}}};      // windows: push 1 / push 2 / nothing
    std::vector<Cycle> cycles{Cycle{}};
    for (const auto &alts : per_key) {
        const std::size_t n = cycles.size();
        for (std::size_t i = 0; i < n; ++i) for (const Op &o : alts) { Cycle c = cycles[i]; c.push_back(o); cycles.push_back(c); }
    }
    bool ok = true;
    std::vector<std::size_t> idx(H, 0);
    long leaf = 0;
    auto next = [&]() { for (auto &d : idx) { if (++d < cycles.size()) return true; d = 0; } return false; };
    do {
        if (sample) for (auto &d : idx) d = rng() % cycles.size();
        else if ((leaf++ % shards) != shard) continue;
        std::vector<Cycle> h; for (auto i : idx) h.push_back(cycles[i]);
        if (shape == "ts") ok = run_history<TS<Int>>(h, shape);
        else if (shape == "tss") ok = run_history<TSS<Int>>(h, shape);
        else if (shape == "tsd") ok = run_history<TSD<Int, TS<Int>>>(h, shape);
        else if (shape == "tsl3") ok = run_history<TSL3>(h, shape);
        else if (shape == "tsldyn") ok = run_history<TSLD>(h, shape);
        else if (shape == "tsb") ok = run_history<PairB>(h, shape);
        else if (shape == "tsw43") ok = run_history<W43>(h, shape);
        else if (shape == "tsw31") ok = run_history<W31>(h, shape);
        else ok = run_history<W22>(h, shape);
    } while (ok && (sample ? g_count < sample : next()));
    std::cout << "PROGRAMS " << g_count << " shape " << shape << " H=" << H << " cycle-shapes " << cycles.size()
              << (sample ? " sampled" : " exhaustive") << "\n";
    if (g_known_empty_tick) std::cout << "KNOWN-CLASS empty-structural-tick-not-replayed " << g_known_empty_tick << " :: " << g_known_empty_tick_example << "\n";
    std::cout << (ok ? "OK" : "VIOLATION") << "\n";
    return ok ? 0 : 1;
}
