// Bounded stand-in for C09's relational half: a sub-graph gives the same (time, value) stream whether it is wired in place
// (wire<G>), as a nested graph node (nested_<G>) or nested twice.  A fixed catalogue of sub-graph bodies - pass-through of
// the whole argument, pass-through of one element of a structural argument, a node on an element, an internal
// self-scheduling source combined with a boundary input, a node that wakes itself a delay after each input tick, a body
// with no boundary input - is run in the three modes for every combination of timing parameters of the boundary inputs, the
// internal source and the delay; the inlined run is the oracle.
// usage: c09_nested [<shard i> <of k>]      exit 0 ok / 1 violation (first failing case printed as FAILING-PROGRAM ...)
#include <hgraph/lib/testing/eval_node.h>
#include <hgraph/lib/testing/runtime_support.h>
#include <hgraph/runtime/node_scheduler.h>
#include <hgraph/types/graph_wiring.h>
#include <hgraph/types/static_node.h>
#include <hgraph/types/subgraph_wiring.h>
#include <cstdlib>
#include <iostream>
#include <map>
#include <sstream>
#include <string>
#include <vector>
using namespace hgraph;
using namespace hgraph::testing;

namespace {
using Trace = std::vector<std::pair<long, long>>;
std::map<std::string, Trace> g_log;
using PairL = TSL<TS<Int>, 2>;

struct P { Int first, step, count; };
P g_a{1, 2, 3}, g_b{2, 3, 2}, g_i{0, 2, 2};
Int g_delay = 1;

struct Rec { static constexpr auto name = "c09_rec";
    static void eval(In<"x", TS<Int>> x, Scalar<"key", std::string> key, DateTime now) {
        g_log[key.value()].push_back({(long)((now - MIN_ST) / MIN_TD), (long)x.value()}); } };

// emits base+1 .. base+count; first tick at MIN_ST + first*MIN_TD, then every step*MIN_TD (count 0: never ticks)
struct Pulse { static constexpr auto name = "c09_pulse";
    static void start(SingleShotScheduler s, Scalar<"first", Int> first, Scalar<"step", Int>, Scalar<"count", Int> count, Scalar<"base", Int>) {
        if (count.value() > 0) s.schedule(s.now() + MIN_TD * first.value()); }
    static void eval(NodeScheduler sched, Scalar<"first", Int>, Scalar<"step", Int> step, Scalar<"count", Int> count, Scalar<"base", Int> base,
                     State<Int> n, Out<TS<Int>> out) {
        Int v = n.get() + 1; out.set(base.value() + v); n.set(v); if (v < count.value()) sched.schedule(MIN_TD * step.value()); } };

struct Ident { static constexpr auto name = "c09_ident";
    static void eval(In<"x", TS<Int>> x, Out<TS<Int>> out) { out.set(x.value()); } };

// boundary value + 1000 * internal value (internal side optional); runs on a tick of either side once the boundary side is valid
struct Sum2 { static constexpr auto name = "c09_sum2";
    static void eval(In<"l", TS<Int>> l, In<"r", TS<Int>, InputValidity::Unchecked> r, Out<TS<Int>> out) {
        out.set(l.value() + (r.valid() ? r.value() * 1000 : 0)); } };
// the same with NO validity requirement at all: sum of whatever is valid
struct SumU { static constexpr auto name = "c09_sum_unchecked";
    static void eval(In<"l", TS<Int>, InputValidity::Unchecked> l, In<"r", TS<Int>, InputValidity::Unchecked> r, Out<TS<Int>> out) {
        out.set((l.valid() ? l.value() : 0) + (r.valid() ? r.value() * 1000 : 0)); } };

// on an input tick: remember the value and wake up `delay` later to publish value*10 (a later input tick replaces the pending one)
struct Delay { static constexpr auto name = "c09_delay";
    static void eval(In<"x", TS<Int>> x, Scalar<"delay", Int> delay, NodeScheduler sched, State<Int> pending, Out<TS<Int>> out) {
        if (x.modified()) { pending.set(x.value()); sched.schedule(MIN_TD * delay.value(), "d"); return; }
        out.set(pending.get() * 10); } };

#define BODY2(NAME, INNER, ARGT) struct NAME##2 { static constexpr auto name = #NAME "2"; \
    static Port<TS<Int>> compose(Wiring &w, ARGT in) { return nested_<INNER>(w, in); } };

struct PassWhole { static constexpr auto name = "c09_pass_whole";
    static Port<TS<Int>> compose(Wiring &, Port<TS<Int>> in) { return in; } };
BODY2(PassWhole, PassWhole, Port<TS<Int>>)
struct PickSecond { static constexpr auto name = "c09_pick_second";
    static Port<TS<Int>> compose(Wiring &, Port<PairL> in) { return tsl_element(in, 1); } };
BODY2(PickSecond, PickSecond, Port<PairL>)
struct CopySecond { static constexpr auto name = "c09_copy_second";
    static Port<TS<Int>> compose(Wiring &w, Port<PairL> in) { return wire<Ident>(w, tsl_element(in, 1)); } };
BODY2(CopySecond, CopySecond, Port<PairL>)
struct AddInner { static constexpr auto name = "c09_add_inner";
    static Port<TS<Int>> compose(Wiring &w, Port<TS<Int>> in) {
        return wire<Sum2>(w, in, wire<Pulse>(w, Int{g_i.first}, Int{g_i.step}, Int{g_i.count}, Int{0})); } };
BODY2(AddInner, AddInner, Port<TS<Int>>)
struct AddInnerU { static constexpr auto name = "c09_add_inner_unchecked";
    static Port<TS<Int>> compose(Wiring &w, Port<TS<Int>> in) {
        return wire<SumU>(w, in, wire<Pulse>(w, Int{g_i.first}, Int{g_i.step}, Int{g_i.count}, Int{0})); } };
BODY2(AddInnerU, AddInnerU, Port<TS<Int>>)
struct Delayed { static constexpr auto name = "c09_delayed";
    static Port<TS<Int>> compose(Wiring &w, Port<TS<Int>> in) { return wire<Delay>(w, in, Int{g_delay}); } };
BODY2(Delayed, Delayed, Port<TS<Int>>)
struct SourceOnly { static constexpr auto name = "c09_source_only";
    static Port<TS<Int>> compose(Wiring &w) { return wire<Pulse>(w, Int{g_i.first}, Int{g_i.step}, Int{g_i.count}, Int{500}); } };
struct SourceOnly2 { static constexpr auto name = "c09_source_only2";
    static Port<TS<Int>> compose(Wiring &w) { return nested_<SourceOnly>(w); } };

template <int Mode> struct G { static constexpr auto name = "c09_g";
    static void compose(Wiring &w) {
        auto a = wire<Pulse>(w, Int{g_a.first}, Int{g_a.step}, Int{g_a.count}, Int{100});
        auto b = wire<Pulse>(w, Int{g_b.first}, Int{g_b.step}, Int{g_b.count}, Int{200});
        auto pick = [&](auto inl, auto n1, auto n2) { return Mode == 0 ? inl() : Mode == 1 ? n1() : n2(); };
        wire<Rec>(w, pick([&] { return wire<PassWhole>(w, a); }, [&] { return nested_<PassWhole>(w, a); }, [&] { return nested_<PassWhole2>(w, a); }),
                  std::string{"pass-through of the whole argument"});
        wire<Rec>(w, pick([&] { return wire<PickSecond>(w, {a, b}); }, [&] { return nested_<PickSecond>(w, {a, b}); }, [&] { return nested_<PickSecond2>(w, {a, b}); }),
                  std::string{"pass-through of element [1] of {a,b}"});
        wire<Rec>(w, pick([&] { return wire<CopySecond>(w, {a, b}); }, [&] { return nested_<CopySecond>(w, {a, b}); }, [&] { return nested_<CopySecond2>(w, {a, b}); }),
                  std::string{"node on element [1] of {a,b}"});
        wire<Rec>(w, pick([&] { return wire<AddInner>(w, a); }, [&] { return nested_<AddInner>(w, a); }, [&] { return nested_<AddInner2>(w, a); }),
                  std::string{"boundary input + internal self-scheduling source"});
        wire<Rec>(w, pick([&] { return wire<AddInnerU>(w, a); }, [&] { return nested_<AddInnerU>(w, a); }, [&] { return nested_<AddInnerU2>(w, a); }),
                  std::string{"consumer without any validity requirement"});
        wire<Rec>(w, pick([&] { return wire<Delayed>(w, a); }, [&] { return nested_<Delayed>(w, a); }, [&] { return nested_<Delayed2>(w, a); }),
                  std::string{"node that wakes itself a delay after each input tick"});
        wire<Rec>(w, pick([&] { return wire<SourceOnly>(w); }, [&] { return nested_<SourceOnly>(w); }, [&] { return nested_<SourceOnly2>(w); }),
                  std::string{"no boundary input, internal source only"});
    } };

template <int Mode> std::map<std::string, Trace> run() {
    g_log.clear();
    auto ex = run_graph(build_graph<G<Mode>>(), MIN_ST, MIN_ST + MIN_TD * 30);
    return g_log;
}
std::string show(const Trace &t) { std::ostringstream s; for (auto &[k, v] : t) s << " " << k << "=" << v; return s.str(); }
}  // namespace

int main(int argc, char **argv) {
    const long shard = argc > 2 ? std::atol(argv[1]) : 0, shards = argc > 2 ? std::atol(argv[2]) : 1;
    long count = 0, leaf = 0, known_start_sample = 0;
    std::string known_example;
    bool ok = true;
    for (Int af : {0, 1, 2}) for (Int as : {1, 3}) for (Int ac : {0, 2, 3})
    for (Int bf : {1, 2}) for (Int bc : {0, 2})
    for (Int f : {0, 1, 3}) for (Int ic : {0, 2}) for (Int d : {1, 2}) {
        if (!ok) break;
        if ((leaf++ % shards) != shard) continue;
        g_a = {af, as, ac}; g_b = {bf, 3, bc}; g_i = {f, 2, ic}; g_delay = d;
        ++count;
        std::ostringstream label;
        label << "a(first " << af << " step " << as << " count " << ac << ") b(first " << bf << " step 3 count " << bc << ") internal(first " << f
              << " step 2 count " << ic << ") delay " << d;
        try {
            auto r0 = run<0>(), r1 = run<1>(), r2 = run<2>();
            std::vector<std::string> keys; for (auto &[k, v] : r0) keys.push_back(k); for (auto &[k, v] : r1) if (!r0.count(k)) keys.push_back(k);
            for (auto &[k, v] : r2) if (!r0.count(k) && !r1.count(k)) keys.push_back(k);
            for (const auto &k : keys) {
                if (r1[k] == r0[k] && r2[k] == r0[k]) continue;
                // class unchecked-consumer-sampled-at-child-start: the nested runs agree with each other and differ from the
                // inlined run ONLY by one extra evaluation at the child's start time (tick 0) of a consumer that has no
                // validity requirement, where the inlined run has no evaluation at that time
                if (k == "consumer without any validity requirement" && r1[k] == r2[k] && !r1[k].empty() && r1[k].front().first == 0 &&
                    (r0[k].empty() || r0[k].front().first != 0) && Trace(r1[k].begin() + 1, r1[k].end()) == r0[k]) {
                    if (known_start_sample++ == 0) known_example = label.str() + " body: " + k + " :: inlined" + show(r0[k]) + " | nested" + show(r1[k]);
                    continue;
                }
                std::cout << "FAILING-PROGRAM " << label.str() << " body: " << k << " :: inlined" << show(r0[k]) << " | nested" << show(r1[k])
                          << " | nested twice" << show(r2[k]) << "\n";
                ok = false; break;
            }
        } catch (const std::exception &e) { std::cout << "FAILING-PROGRAM " << label.str() << " :: run failed: " << e.what() << "\n"; ok = false; }
    }
    if (known_start_sample) std::cout << "KNOWN-CLASS unchecked-consumer-sampled-at-child-start " << known_start_sample << " :: " << known_example << "\n";
    std::cout << "PROGRAMS " << count * 7 << " (" << count << " timing combinations x 7 bodies, each inlined / nested / nested twice)\n";
    std::cout << (ok ? "OK" : "VIOLATION") << "\n";
    return ok ? 0 : 1;
}
