// Bounded stand-in for C05 / C20 on the collection shapes whose storage is not under contract (TSD, nested TSD/TSS):
// every history of H cycles, each a sequence of at most L output mutations over a small universe, is executed by a real
// producer node through the public Out<> API; at every tick an observer
// captures the tick's delta with the engine's capture_delta and applies it, with the engine's apply_delta, to a shadow
// output that holds the previous value (the property's own equivalence: "applying a captured delta to a copy of the
// pre-tick state yields the post-tick state").  The shadow's value must then equal the observed value.  No model of the
// delta semantics is involved: the oracle is the observed value itself.
// usage: c05_deltas <shape: tss|tsd|tsd_tss> <H> <L> [<max histories, 0 = all>] [<seed>]     (SHARD=i/k splits the space)
// exit 0 ok / 1 violation (first failing history printed as FAILING-PROGRAM ...)
#include <hgraph/lib/testing/eval_node.h>
#include <hgraph/lib/testing/record_replay.h>
#include <hgraph/lib/testing/runtime_support.h>
#include <hgraph/lib/std/std_operators.h>
#include <hgraph/types/graph_wiring.h>
#include <hgraph/types/static_node.h>
#include <hgraph/types/time_series/ts_delta.h>
#include <hgraph/types/time_series/ts_output.h>
#include <hgraph/types/value/value_builder.h>
#include <set>
#include <cstdio>
#include <cstdlib>
#include <iostream>
#include <map>
#include <optional>
#include <random>
#include <sstream>
#include <string>
#include <vector>
using namespace hgraph;
using namespace hgraph::testing;

namespace {
struct Tick { long t; std::string delta, value, shadow; bool ok; };
std::vector<Tick> g_ticks;
std::optional<TSOutput> g_shadow;

template <typename S> struct Observer { static constexpr auto name = "observer";
    static void eval(In<"x", S, InputValidity::Unchecked> x, DateTime now) {
        const TSInputView &in = x.base();
        if (!g_shadow.has_value()) { g_shadow.emplace(in.schema()); }
        Value delta = capture_delta(in);
        apply_delta(g_shadow->view(now), delta.view());
        auto shadow_view = g_shadow->view(now);
        Tick tk{(long)(now - MIN_ST).count(), delta.view().to_string(), in.valid() ? in.value().to_string() : "<invalid>",
                shadow_view.valid() ? shadow_view.value().to_string() : "<invalid>", true};
        tk.ok = in.valid() == shadow_view.valid() && (!in.valid() || in.value().equals(shadow_view.value()));
        g_ticks.push_back(std::move(tk));
    } };

// one output mutation: kind 0 add/set, 1 remove/erase, 2 child add, 3 child remove
struct Op { int kind; Int key; Int arg; };
using Cycle = std::vector<Op>;
const std::vector<Cycle> *g_history = nullptr;

std::string show(const Op &o, const std::string &shape) {
    std::ostringstream s;
    if (shape == "tss" || shape == "tssassign") {
        if (o.kind == 4) { s << "assign{"; for (Int e = 1; e <= 3; ++e) if (o.key & (Int{1} << (e - 1))) s << e << ","; s << "}"; }
        else s << (o.kind == 0 ? "add(" : "remove(") << o.key << ")"; }
    else if (shape == "tsd") { if (o.kind == 0) s << "set(" << o.key << "," << o.arg << ")"; else s << "erase(" << o.key << ")"; }
    else { if (o.kind == 1) s << "erase(" << o.key << ")"; else s << "out[" << o.key << "]." << (o.kind == 2 ? "add(" : "remove(") << o.arg << ")"; }
    return s.str();
}

template <typename S> struct Producer;
// kind 4 (shape tssassign): whole-value assignment of the set { e in {1,2,3} : bit (e-1) of key }, the way the conversion operators
// publish a complete set value (TSDataMutationView::move_value_from)
template <> struct Producer<TSS<Int>> { static constexpr auto name = "producer";
    static void eval(In<"c", TS<Int>> c, Out<TSS<Int>> out) {
        for (const Op &o : (*g_history)[(std::size_t)c.value()]) {
            if (o.kind == 0) out.add(o.key);
            else if (o.kind == 1) out.remove(o.key);
            else {
                const auto &erased = static_cast<const TSOutputView &>(out.base());
                SetBuilder builder{out.data_view().layout().key_binding};
                for (Int e = 1; e <= 3; ++e) if (o.key & (Int{1} << (e - 1))) { const Int v = e; (void)builder.insert_copy(&v); }
                auto mutation = erased.begin_mutation(erased.evaluation_time());
                (void)mutation.move_value_from(builder.build());
            } } } };
template <> struct Producer<TSD<Int, TS<Int>>> { static constexpr auto name = "producer";
    static void eval(In<"c", TS<Int>> c, Out<TSD<Int, TS<Int>>> out) {
        for (const Op &o : (*g_history)[(std::size_t)c.value()]) { if (o.kind == 0) out.set(o.key, o.arg); else (void)out.erase(o.key); } } };
template <> struct Producer<TSD<Int, TSS<Int>>> { static constexpr auto name = "producer";
    static void eval(In<"c", TS<Int>> c, Out<TSD<Int, TSS<Int>>> out) {
        for (const Op &o : (*g_history)[(std::size_t)c.value()]) {
            if (o.kind == 1) (void)out.erase(o.key); else if (o.kind == 2) out[o.key].add(o.arg); else out[o.key].remove(o.arg); } } };

template <typename S> struct G { static constexpr auto name = "g";
    static void compose(Wiring &w) { wire<Observer<S>>(w, wire<Producer<S>>(w, wire<stdlib::replay_impl, TS<Int>>(w, Str{"a"}))); } };

long g_count = 0;

template <typename S> bool run_history(const std::vector<Cycle> &h, const std::string &shape) {
    g_ticks.clear(); g_shadow.reset();
    g_history = &h;
    ++g_count;
    std::string text = shape + " ";
    for (const auto &c : h) { text += "["; for (const auto &o : c) text += show(o, shape) + ";"; text += "] "; }
    try {
        auto gb = build_graph<G<S>>();
        std::vector<std::optional<Int>> ticks; for (std::size_t i = 0; i < h.size(); ++i) ticks.emplace_back((Int)i);
        set_replay_values<Int>(gb.global_state(), "a", ticks);
        auto ex = run_graph(std::move(gb), MIN_ST, MIN_ST + TimeDelta{(long)h.size() + 2});
    } catch (const std::exception &e) { std::cout << "FAILING-PROGRAM " << text << ":: run failed: " << e.what() << "\n"; g_shadow.reset(); return false; }
    g_shadow.reset();
    if (shape == "tssassign") {
        // explicit set model: the value observed at each tick is the set the mutations describe (an assignment REPLACES the contents)
        std::set<Int> model; std::size_t ti = 0;
        for (std::size_t c = 0; c < h.size(); ++c) {
            if (h[c].empty()) continue;
            for (const Op &o : h[c]) {
                if (o.kind == 0) model.insert(o.key); else if (o.kind == 1) model.erase(o.key);
                else { model.clear(); for (Int e = 1; e <= 3; ++e) if (o.key & (Int{1} << (e - 1))) model.insert(e); } }
            while (ti < g_ticks.size() && g_ticks[ti].t < (long)c) ++ti;
            if (ti >= g_ticks.size() || g_ticks[ti].t != (long)c) continue;     // a cycle whose mutations had no effect does not tick
            std::set<Int> seen; { std::string num; for (char ch : g_ticks[ti].value + " ") { if (std::isdigit((unsigned char)ch)) num += ch; else { if (!num.empty()) seen.insert((Int)std::stol(num)); num.clear(); } } }
            if (seen != model) {
                std::ostringstream m; m << "{"; for (Int e : model) m << e << ","; m << "}";
                std::cout << "FAILING-PROGRAM " << text << ":: tick " << c << " value " << g_ticks[ti].value << " but the mutations describe " << m.str() << "\n";
                return false;
            }
        }
    }
    for (const auto &tk : g_ticks) {
        if (tk.ok) continue;
        std::cout << "FAILING-PROGRAM " << text << ":: tick " << tk.t << " delta " << tk.delta << " value " << tk.value
                  << " but previous value + delta = " << tk.shadow << "\n";
        return false;
    }
    return true;
}
}  // namespace

int main(int argc, char **argv) {
    const std::string shape = argc > 1 ? argv[1] : "tsd";
    const int H = argc > 2 ? std::atoi(argv[2]) : 2;
    const int L = argc > 3 ? std::atoi(argv[3]) : 3;
    const long sample = argc > 4 ? std::atol(argv[4]) : 0;
    std::mt19937 rng(argc > 5 ? (unsigned)std::atol(argv[5]) : 1);
    long shard = 0, shards = 1;
    if (const char *sh = std::getenv("SHARD")) { if (std::sscanf(sh, "%ld/%ld", &shard, &shards) != 2 || shards < 1) { shard = 0; shards = 1; } }
    stdlib::register_standard_operators();
    std::vector<Op> ops;
    if (shape == "tss") { for (Int e : {1, 2}) { ops.push_back({0, e, 0}); ops.push_back({1, e, 0}); } }
    else if (shape == "tssassign") { for (Int e : {1, 2}) { ops.push_back({0, e, 0}); ops.push_back({1, e, 0}); } for (Int m = 0; m < 8; ++m) ops.push_back({4, m, 0}); }
    else if (shape == "tsd") { for (Int k : {1, 2}) { ops.push_back({0, k, 10}); ops.push_back({0, k, 11}); ops.push_back({1, k, 0}); } }
    else { for (Int k : {1, 2}) { ops.push_back({1, k, 0}); for (Int e : {5, 6}) { ops.push_back({2, k, e}); if (k == 1) ops.push_back({3, k, e}); } } }
    // all op sequences of length <= L
    std::vector<Cycle> cycles{Cycle{}};
    for (std::size_t from = 0, len = 1; len <= (std::size_t)L; ++len) {
        const std::size_t to = cycles.size();
        for (std::size_t i = from; i < to; ++i) for (const Op &o : ops) { Cycle c = cycles[i]; c.push_back(o); cycles.push_back(c); }
        from = to;
    }
    bool ok = true;
    std::vector<std::size_t> idx(H, 0);
    long leaf = 0;
    auto next = [&]() { for (auto &d : idx) { if (++d < cycles.size()) return true; d = 0; } return false; };
    do {
        if (sample) for (auto &d : idx) d = rng() % cycles.size();
        else if ((leaf++ % shards) != shard) continue;
        std::vector<Cycle> h; for (auto i : idx) h.push_back(cycles[i]);
        if (shape == "tss" || shape == "tssassign") ok = run_history<TSS<Int>>(h, shape);
        else if (shape == "tsd") ok = run_history<TSD<Int, TS<Int>>>(h, shape);
        else ok = run_history<TSD<Int, TSS<Int>>>(h, shape);
    } while (ok && (sample ? g_count < sample : next()));
    std::cout << "PROGRAMS " << g_count << " shape " << shape << " H=" << H << " L=" << L << " cycle-shapes " << cycles.size()
              << (sample ? " sampled" : " exhaustive") << "\n";
    std::cout << (ok ? "OK" : "VIOLATION") << "\n";
    return ok ? 0 : 1;
}
