// Bounded stand-in for C11 on the whole reduce pipeline (wiring fast paths, reduce_node.cpp tree maintenance, zero handling):
// every history of H cycles over a small universe is replayed into a real graph  replay -> reduce_(combiner, xs[, zero]) ->
// observer, and at EVERY cycle the observer's reading of the reduce output (valid or not, value) is compared with the fold
// of the combiner over exactly the currently valid elements as the property states it:
//     no element: invalid without a zero, the zero with one;  one element: the element without a zero, combine(value, zero)
//     with one;  two or more: the fold of the elements, no zero.
// The combiner is associative and commutative and makes every application visible: combine(l, r) = l + r + 100 (node
// combiner) or l + r (the add_ operator kernel, which takes the lifted fast path); element values are distinct powers of
// two, so the sum identifies the multiset that was folded.
// usage: c11_fold <shape: tsd|tsl4|tsldyn> <combiner: node|add> <zero: 0|1> <H> [<max histories, 0 = all>] [<seed>]  (SHARD=i/k)
// exit 0 ok / 1 violation (first failing history printed as FAILING-PROGRAM ...)
#include <hgraph/lib/std/std_operators.h>
#include <hgraph/lib/std/std_nodes.h>
#include <hgraph/lib/std/value_util.h>
#include <hgraph/lib/testing/eval_node.h>
#include <hgraph/lib/testing/record_replay.h>
#include <hgraph/lib/testing/runtime_support.h>
#include <hgraph/types/graph_wiring.h>
#include <hgraph/types/static_node.h>
#include <hgraph/types/wired_fn.h>
#include <cstdio>
#include <cstdlib>
#include <iostream>
#include <map>
#include <optional>
#include <random>
#include <sstream>
#include <string>
#include <vector>
using namespace hgraph;
using namespace hgraph::testing;

namespace {
constexpr Int ZERO = Int{1} << 40;
constexpr Int STEP = 100;

struct OffsetSumCombiner { static constexpr auto name = "c11_offset_sum_combiner";
    static void eval(In<"lhs", TS<Int>> lhs, In<"rhs", TS<Int>> rhs, Out<TS<Int>> out) { out.set(lhs.value() + rhs.value() + STEP); } };

struct Reading { bool valid; Int value; };
std::vector<Reading> g_readings;

struct Observer { static constexpr auto name = "c11_observer";
    static void eval(In<"c", TS<Int>> c, In<"x", TS<Int>, InputValidity::Unchecked> x) {
        (void)c;
        g_readings.push_back(x.valid() ? Reading{true, x.value()} : Reading{false, 0});
    } };

// per key/slot and cycle: 0 nothing, 1 set (a fresh power of two), 2 remove (dictionary only, key must be present)
using Cycle = std::vector<int>;

template <typename S, typename C, bool Z> struct G { static constexpr auto name = "c11_g";
    static void compose(Wiring &w) {
        auto clock = wire<stdlib::replay_impl, TS<Int>>(w, Str{"clock"});
        auto xs = wire<stdlib::replay_impl, S>(w, Str{"xs"});
        if constexpr (Z) { wire<Observer>(w, clock, wire<stdlib::reduce_>(w, fn<C>(), xs, Int{ZERO})); }
        else { wire<Observer>(w, clock, wire<stdlib::reduce_>(w, fn<C>(), xs)); }
    } };

Value dict_delta(const std::map<Int, Int> &m, const std::vector<Int> &removed) {
    std::map<Int, static_node_detail::delta_input_t<TS<Int>>> mm;
    for (auto &[k, v] : m) mm.emplace(k, v);
    return static_node_detail::build_dict_delta<Int, TS<Int>>(mm, removed);
}

long g_count = 0;

template <typename S, typename C, bool Z>
bool run_history(const std::vector<Cycle> &h, const std::string &label, bool dict, Int step) {
    ++g_count;
    g_readings.clear();
    std::map<Int, Int> state;
    std::vector<std::optional<Value>> deltas;
    std::vector<std::map<Int, Int>> states;
    std::ostringstream text;
    text << label << " ";
    int fresh = 0;
    for (const Cycle &c : h) {
        std::map<Int, Int> sets; std::vector<Int> removed;
        text << "[";
        for (std::size_t k = 0; k < c.size(); ++k) {
            if (c[k] == 1) { Int v = Int{1} << fresh++; sets[(Int)k] = v; state[(Int)k] = v; text << "set(" << k << "," << v << ");"; }
            else if (c[k] == 2 && dict && state.count((Int)k)) { removed.push_back((Int)k); state.erase((Int)k); text << "remove(" << k << ");"; }
        }
        text << "] ";
        if (dict) { deltas.emplace_back(dict_delta(sets, removed)); }
        else {
            std::map<std::size_t, static_node_detail::delta_input_t<TS<Int>>> items; for (auto &[k, v] : sets) items.emplace((std::size_t)k, v);
            // a cycle without a set does not tick the list (an empty list delta is a tick of an all-invalid list only at start)
            if (items.empty() && !states.empty()) deltas.emplace_back(std::nullopt); else deltas.emplace_back(static_node_detail::build_list_delta<TS<Int>>(items));
        }
        states.push_back(state);
    }
    try {
        auto gb = build_graph<G<S, C, Z>>();
        std::vector<std::optional<Int>> ticks; for (std::size_t i = 0; i < h.size(); ++i) ticks.emplace_back((Int)i);
        set_replay_values<Int>(gb.global_state(), "clock", ticks);
        set_replay_deltas(gb.global_state(), "xs", deltas);
        auto ex = run_graph(std::move(gb), MIN_ST, MIN_ST + TimeDelta{(long)h.size() + 2});
    } catch (const std::exception &e) { std::cout << "FAILING-PROGRAM " << text.str() << ":: run failed: " << e.what() << "\n"; return false; }
    if (g_readings.size() != h.size()) {
        std::cout << "FAILING-PROGRAM " << text.str() << ":: observer ran " << g_readings.size() << " times for " << h.size() << " cycles\n";
        return false;
    }
    for (std::size_t i = 0; i < h.size(); ++i) {
        const auto &s = states[i];
        Reading want{true, 0};
        Int sum = 0; for (auto &[k, v] : s) sum += v;
        if (s.empty()) { want = Z ? Reading{true, ZERO} : Reading{false, 0}; }
        else if (s.size() == 1) { want.value = Z ? sum + ZERO + step : sum; }
        else { want.value = sum + step * (Int)(s.size() - 1); }
        const Reading &got = g_readings[i];
        if (got.valid != want.valid || (want.valid && got.value != want.value)) {
            std::cout << "FAILING-PROGRAM " << text.str() << ":: cycle " << i << " live elements " << s.size() << ": reduce output is "
                      << (got.valid ? std::to_string(got.value) : std::string("<invalid>")) << " but the fold over the valid elements is "
                      << (want.valid ? std::to_string(want.value) : std::string("<invalid>")) << "\n";
            return false;
        }
    }
    return true;
}

template <typename S, bool Z> bool dispatch_c(const std::string &comb, const std::vector<Cycle> &h, const std::string &label, bool dict) {
    if (comb == "node") return run_history<S, OffsetSumCombiner, Z>(h, label, dict, STEP);
    return run_history<S, stdlib::add_, Z>(h, label, dict, 0);
}
template <typename S> bool dispatch_z(bool z, const std::string &comb, const std::vector<Cycle> &h, const std::string &label, bool dict) {
    return z ? dispatch_c<S, true>(comb, h, label, dict) : dispatch_c<S, false>(comb, h, label, dict);
}
}  // namespace

int main(int argc, char **argv) {
    const std::string shape = argc > 1 ? argv[1] : "tsd";
    const std::string comb = argc > 2 ? argv[2] : "node";
    const bool zero = argc > 3 && std::atoi(argv[3]) != 0;
    const int H = argc > 4 ? std::atoi(argv[4]) : 3;
    const long sample = argc > 5 ? std::atol(argv[5]) : 0;
    std::mt19937 rng(argc > 6 ? (unsigned)std::atol(argv[6]) : 1);
    long shard = 0, shards = 1;
    if (const char *sh = std::getenv("SHARD")) { if (std::sscanf(sh, "%ld/%ld", &shard, &shards) != 2 || shards < 1) { shard = 0; shards = 1; } }
    stdlib::register_standard_operators();
    const bool dict = shape == "tsd";
    // universe: exhaustive runs use 3 keys / 4 list slots; sampled runs 6 keys (growth over the capacity boundaries 2, 4, 8)
    const int K = shape == "tsl4" ? 4 : (sample ? 6 : 3);
    const int choices = dict ? 3 : 2;
    std::vector<Cycle> cycles;
    { long n = 1; for (int i = 0; i < K; ++i) n *= choices;
      for (long code = 0; code < n; ++code) { Cycle c; long x = code; for (int i = 0; i < K; ++i) { c.push_back((int)(x % choices)); x /= choices; } cycles.push_back(c); } }
    const std::string label = shape + "/" + comb + (zero ? "/zero" : "/no-zero");
    bool ok = true;
    std::vector<std::size_t> idx(H, 0);
    long leaf = 0;
    auto next = [&]() { for (auto &d : idx) { if (++d < cycles.size()) return true; d = 0; } return false; };
    do {
        if (sample) for (auto &d : idx) d = rng() % cycles.size();
        else if ((leaf++ % shards) != shard) continue;
        std::vector<Cycle> h; for (auto i : idx) h.push_back(cycles[i]);
        if (shape == "tsd") ok = dispatch_z<TSD<Int, TS<Int>>>(zero, comb, h, label, true);
        else if (shape == "tsl4") ok = dispatch_z<TSL<TS<Int>, 4>>(zero, comb, h, label, false);
        else ok = dispatch_z<TSL<TS<Int>>>(zero, comb, h, label, false);
    } while (ok && (sample ? g_count < sample : next()));
    std::cout << "PROGRAMS " << g_count << " " << label << " H=" << H << " universe " << K << " cycle-shapes " << cycles.size()
              << (sample ? " sampled" : " exhaustive") << "\n";
    std::cout << (ok ? "OK" : "VIOLATION") << "\n";
    return ok ? 0 : 1;
}
