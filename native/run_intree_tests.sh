#!/bin/bash
# Differential regression suite for "fix:" commits: build tests/cpp/<name>.cpp of a tree against its runtime archive with
# the Catch2 stand-in (native/catch2_shim) and print one "TEST PASS|FAIL <name>" line per test case.
# usage: run_intree_tests.sh <repo> <builddir> <outdir> test_a test_b ...   (per-file logs in <outdir>/<test>.log)
REPO=$1; BD=$2; OUT=$3; shift 3
HERE=$(cd "$(dirname "$0")" && pwd)
mkdir -p "$OUT"
python3 "$HERE/build_runtime.py" "$REPO" "$BD" > "$OUT/archive.log" 2>&1 || { echo "archive build failed"; tail -5 "$OUT/archive.log"; exit 2; }
run_one() {
  t=$1
  PROBE_FLAGS="-I$HERE/catch2_shim -I$REPO/tests/cpp -DCATCH_SHIM_MAIN" python3 "$HERE/build_runtime.py" "$REPO" "$BD" --probe "$REPO/tests/cpp/$t.cpp" -o "$OUT/$t.bin" > "$OUT/$t.build.log" 2>&1
  if [ ! -x "$OUT/$t.bin" ]; then echo "BUILD FAIL $t" > "$OUT/$t.log"; return; fi
  (cd "$REPO" && timeout 600 "$OUT/$t.bin") > "$OUT/$t.log" 2>&1
  echo "EXIT $?" >> "$OUT/$t.log"
  rm -f "$OUT/$t.bin" "$OUT/$t.bin.o" "$OUT/$t.bin.stubs.c" "$OUT/$t.bin.stubs.c.o"
}
export -f run_one; export HERE REPO BD OUT
printf "%s\n" "$@" | xargs -P ${JOBS:-8} -I{} bash -c 'run_one {}'
for t in "$@"; do echo "== $t: $(grep -c '^TEST PASS' $OUT/$t.log) pass, $(grep -c '^TEST FAIL' $OUT/$t.log) fail, $(grep '^EXIT\|^BUILD FAIL' $OUT/$t.log | tr '\n' ' ')"; done
