// Native replay harness for the NodeScheduler kernels (C18 / C17 / C03 share them): builds a NodeScheduler over a concrete
// entry state read from stdin, calls one operation of the REAL include/hgraph/runtime/node_scheduler.h, and prints the
// final state.  GraphValue::schedule_node is replaced by a recording stub that implements exactly the contract the
// kernels use for it (throws out_of_range for a bad index, runtime_error for a time in the past).
// Only the header is needed: g++ -std=c++23 -I<gen> -I/repo/include ... ns_replay.cpp
#include <hgraph/runtime/node_scheduler.h>
#include <cstdio>
#include <iostream>
#include <optional>
#include <sstream>
#include <string>
#include <vector>
using namespace hgraph;

static long long g_T = 0; static std::size_t g_n = 0;
static std::vector<std::pair<std::size_t, long long>> g_calls;
static long long us(DateTime t) { return (long long)t.time_since_epoch().count(); }
static DateTime dt(long long v) { return DateTime{TimeDelta{v}}; }

namespace hgraph {
void GraphValue::schedule_node(std::size_t node_index, DateTime when) {
    if (node_index >= g_n) throw std::out_of_range("schedule_node: bad index");
    if (us(when) < g_T) throw std::runtime_error("schedule_node: in the past");
    g_calls.emplace_back(node_index, us(when));
}
}
static std::string tag_of(long long k) { if (k == 0) return ""; char b[32]; std::snprintf(b, sizeof b, "t%09lld", k); return b; }
static long long id_of(const std::string &s) { return s.empty() ? 0 : std::stoll(s.substr(1)); }

int main() {
    long long now, idx; int started, graph_null, state_null, supports_wall; long long T, n;
    std::cin >> now >> idx >> started >> graph_null >> state_null >> supports_wall >> T >> n;
    g_T = T; g_n = (std::size_t)n;
    NodeSchedulerState st;
    std::size_t ne; std::cin >> ne; for (std::size_t i = 0; i < ne; ++i) { long long t, g; std::cin >> t >> g; st.events.emplace(dt(t), tag_of(g)); }
    std::size_t nt; std::cin >> nt; for (std::size_t i = 0; i < nt; ++i) { long long g, t; std::cin >> g >> t; st.tags.emplace(tag_of(g), dt(t)); }
    alignas(64) static unsigned char graph_storage[4096];
    GraphValue *graph = graph_null ? nullptr : reinterpret_cast<GraphValue *>(graph_storage);
    NodeSchedulerState dummy;
    NodeScheduler ns = state_null ? NodeScheduler{} : NodeScheduler{st, graph, (std::size_t)idx, dt(now), started != 0, EvaluationClockView{}, supports_wall != 0};
    std::string op; std::cin >> op;
    std::ostringstream ret; std::string exc;
    try {
        if (op == "advance") ns.advance();
        else if (op == "schedule_dt") { long long when, th, tv; int wall; std::cin >> when >> th >> tv >> wall;
            ns.schedule(dt(when), th ? std::optional<std::string>{tag_of(tv)} : std::nullopt, wall != 0); }
        else if (op == "schedule_td") { long long d, th, tv; int wall; std::cin >> d >> th >> tv >> wall;
            ns.schedule(TimeDelta{d}, th ? std::optional<std::string>{tag_of(tv)} : std::nullopt, wall != 0); }
        else if (op == "un_schedule_tag") { long long g; std::cin >> g; ns.un_schedule(tag_of(g)); }
        else if (op == "un_schedule") ns.un_schedule();
        else if (op == "pop_tag") { long long g, d; std::cin >> g >> d; ret << us(ns.pop_tag(tag_of(g), dt(d))); }
        else if (op == "reset") ns.reset();
        else if (op == "next_scheduled_time") ret << us(ns.next_scheduled_time());
        else if (op == "is_scheduled") ret << (ns.is_scheduled() ? 1 : 0);
        else if (op == "is_scheduled_now") ret << (ns.is_scheduled_now() ? 1 : 0);
        else if (op == "has_tag") { long long g; std::cin >> g; ret << (ns.has_tag(tag_of(g)) ? 1 : 0); }
        else if (op == "tag_time") { long long g, d; std::cin >> g >> d; ret << us(ns.tag_time(tag_of(g), dt(d))); }
        else if (op == "tag_is_scheduled_now") { long long g; std::cin >> g; ret << (ns.tag_is_scheduled_now(tag_of(g)) ? 1 : 0); }
        else { std::cout << "unsupported " << op << "\n"; return 3; }
    } catch (const std::logic_error &e) { exc = dynamic_cast<const std::out_of_range *>(&e) ? "std::out_of_range" : dynamic_cast<const std::invalid_argument *>(&e) ? "std::invalid_argument" : "std::logic_error"; }
      catch (const std::runtime_error &) { exc = "std::runtime_error"; }
      catch (const std::exception &) { exc = "std::exception"; }
    std::cout << "exc " << (exc.empty() ? "-" : exc) << "\n";
    std::cout << "ret " << (ret.str().empty() ? "-" : ret.str()) << "\n";
    std::cout << "events " << st.events.size(); for (auto &e : st.events) std::cout << " " << us(e.first) << " " << id_of(e.second); std::cout << "\n";
    std::cout << "tags " << st.tags.size(); for (auto &e : st.tags) std::cout << " " << id_of(e.first) << " " << us(e.second); std::cout << "\n";
    std::cout << "calls " << g_calls.size(); for (auto &c : g_calls) std::cout << " " << c.first << " " << c.second; std::cout << "\n";
    return 0;
}
