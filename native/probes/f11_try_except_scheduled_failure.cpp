// F11 (C15): a self-scheduling node inside a try_except_ sub-graph throws on one of its scheduled wake-ups.
// "In later cycles the failing node is evaluated normally again": the same node with per-node error capture keeps working;
// wrapped in try_except_ it must behave the same in the cycles that follow.
// Pulse: on an input tick remember x, emit x, schedule a wake-up 2 cycles later; on the wake-up emit x + 100 (throw when x == 7).
#include <hgraph/lib/testing/eval_node.h>
#include <hgraph/lib/testing/record_replay.h>
#include <hgraph/lib/testing/runtime_support.h>
#include <hgraph/lib/std/std_operators.h>
#include <hgraph/runtime/node_error.h>
#include <hgraph/runtime/node_scheduler.h>
#include <hgraph/types/graph_wiring.h>
#include <hgraph/types/static_node.h>
#include <hgraph/types/subgraph_wiring.h>
#include <iostream>
#include <optional>
#include <vector>
using namespace hgraph;
using namespace hgraph::testing;
struct Pulse { static constexpr auto name = "pulse";
  static void eval(In<"x", TS<Int>> x, NodeScheduler sched, State<Int> st, Out<TS<Int>> out) {
    if (x.modified()) { st.set(x.value()); sched.schedule(MIN_TD * 2); out.set(x.value()); }
    else { if (st.get() == 7) { throw std::runtime_error("seven on wake"); } out.set(st.get() + 100); } } };
struct PulseG { static constexpr auto name = "pulse_g"; static Port<TS<Int>> compose(Wiring &w, Port<TS<Int>> x) { return wire<Pulse>(w, x); } };
using TryIntResult = UnNamedTSB<Field<"exception", TS<NodeError>>, Field<"out", TS<Int>>>;
struct TryOut { static constexpr auto name = "try_out";
  static void eval(In<"r", TryIntResult, InputValidity::Unchecked> r, Out<TS<Int>> out) {
    auto f = r.template field<"out">(); if (f.valid() && f.modified()) { out.set(f.value()); } } };
struct Captured { static constexpr auto name = "captured";
  static void compose(Wiring &w) { auto x = wire<stdlib::replay_impl, TS<Int>>(w, Str{"x"}); auto p = wire<Pulse>(w, x);
    (void)exception_time_series(p); wire<stdlib::dense_record_impl>(w, p, Str{"out"}); } };
struct Wrapped { static constexpr auto name = "wrapped";
  static void compose(Wiring &w) { auto x = wire<stdlib::replay_impl, TS<Int>>(w, Str{"x"});
    auto r = try_except_<PulseG>(w, x).template as<TryIntResult>(); wire<stdlib::dense_record_impl>(w, wire<TryOut>(w, r), Str{"out"}); } };
template <typename G> std::vector<std::optional<Int>> run() {
  constexpr auto none = std::nullopt;
  auto gb = build_graph<G>();
  set_replay_values<Int>(gb.global_state(), "x", {Int{1}, none, none, Int{-2}, none, none, Int{7}, none, none, Int{3}, none, none, none});
  std::vector<std::optional<Int>> out;
  try { auto ex = run_graph(std::move(gb), MIN_ST, MIN_ST + TimeDelta{40}); out = get_recorded_values<Int>(ex.view().graph().global_state(), "out"); }
  catch (const std::exception &e) { std::cout << "run failed: " << e.what() << "\n"; out.push_back(Int{-999}); }
  return out; }
static void print(const char *l, const std::vector<std::optional<Int>> &v) { std::cout << l; for (auto &e : v) std::cout << " " << (e ? std::to_string(*e) : std::string("-")); std::cout << "\n"; }
int main() { stdlib::register_standard_operators();
  auto a = run<Captured>(); auto b = run<Wrapped>();
  print("per-node capture:", a); print("try_except_     :", b);
  const bool ok = a == b; std::cout << (ok ? "OK" : "FAIL: after a failure on a scheduled wake-up the wrapped node no longer behaves as the captured one") << "\n";
  return ok ? 0 : 1; }
