// C19 demo 2: a type variable used in two positions must bind ONE type.
//
//   same        : (~S, ~S) -> ~S      rank 10000
//   independent : (~A, ~B) -> ~B      rank 20000
//
// Quote and Trade are two different nominal bundles that happen to have the same
// field list (and Anon is the un-named bundle with that field list). They are
// three distinct interned schemas, so (Quote, Trade) can not satisfy (~S, ~S):
// with only `same` registered resolution must fail, and with both registered the
// only match is `independent`, whose output is the second argument's type (Trade).
#include <hgraph/types/operator_dispatch.h>
#include <hgraph/types/metadata/type_registry.h>

#include <array>
#include <iostream>
#include <string>
#include <vector>

using namespace hgraph;

namespace
{
    WiringArg ts_arg(const TSValueTypeMetaData *schema)
    {
        WiringArg arg;
        arg.kind        = WiringArg::Kind::TimeSeries;
        arg.port.schema = schema;
        return arg;
    }

    OperatorImpl make(std::string op, std::string label, std::vector<TypePattern> inputs, TypePattern output)
    {
        OperatorImpl impl;
        impl.name  = std::move(op);
        impl.label = std::move(label);
        std::size_t i = 0;
        for (TypePattern &p : inputs)
        {
            impl.params.push_back(ParamPattern{.kind = ParamPattern::Kind::Input,
                                               .name = "a" + std::to_string(i++),
                                               .ts   = std::move(p)});
        }
        impl.has_output = true;
        impl.output     = std::move(output);
        impl.rank       = operator_dispatch_detail::operator_rank(impl.params);
        return impl;
    }

    int failures = 0;

    void expect(bool ok, const std::string &what)
    {
        std::cout << (ok ? "  ok   : " : "  WRONG: ") << what << "\n";
        if (!ok) { ++failures; }
    }

    std::string describe(const char *op, const TSValueTypeMetaData *lhs, const TSValueTypeMetaData *rhs)
    {
        std::array<WiringArg, 2> args{ts_arg(lhs), ts_arg(rhs)};
        try
        {
            const auto resolved = OperatorRegistry::instance().resolve(op, std::span<const WiringArg>{args}, true);
            const TSValueTypeMetaData *out = ts_pattern_resolve(resolved.impl->output, resolved.map);
            return "selected " + resolved.impl->label + ", output " +
                   (out != nullptr ? std::string{out->name()} : std::string{"<null>"});
        }
        catch (const OperatorResolutionError &)
        {
            return "resolution error";
        }
    }
}  // namespace

int main()
{
    auto &types = TypeRegistry::instance();
    (void)types.register_scalar<Int>("int");
    (void)types.register_scalar<Float>("float");
    const TSValueTypeMetaData *ts_int   = types.ts(scalar_type<Int>());
    const TSValueTypeMetaData *ts_float = types.ts(scalar_type<Float>());

    const std::vector<std::pair<std::string, const TSValueTypeMetaData *>> fields{{"px", ts_float}, {"qty", ts_int}};
    const TSValueTypeMetaData *quote = types.tsb("Quote", fields);
    const TSValueTypeMetaData *trade = types.tsb("Trade", fields);
    const TSValueTypeMetaData *anon  = types.un_named_tsb(fields);
    std::cout << "Quote=" << quote->name() << "  Trade=" << trade->name() << "  Anon=" << anon->name() << "\n";
    expect(quote != trade && quote != anon && trade != anon, "Quote, Trade and Anon are three distinct interned schemas");

    OperatorRegistry::instance().reset();
    OperatorRegistry::instance().register_overload(
        make("only_same", "same", {TypePattern::tsb_var("S"), TypePattern::tsb_var("S")}, TypePattern::tsb_var("S")));
    OperatorRegistry::instance().register_overload(
        make("both", "same", {TypePattern::tsb_var("S"), TypePattern::tsb_var("S")}, TypePattern::tsb_var("S")));
    OperatorRegistry::instance().register_overload(
        make("both", "independent", {TypePattern::tsb_var("A"), TypePattern::tsb_var("B")}, TypePattern::tsb_var("B")));

    std::string r;
    r = describe("only_same", quote, quote);
    expect(r == "selected same, output " + std::string{quote->name()}, "only_same(Quote, Quote) -> " + r);
    r = describe("only_same", quote, trade);
    expect(r == "resolution error", "only_same(Quote, Trade) -> " + r + "   (expected: resolution error)");
    r = describe("only_same", anon, quote);
    expect(r == "resolution error", "only_same(Anon, Quote)  -> " + r + "   (expected: resolution error)");
    r = describe("only_same", types.tsl(quote, 2), types.tsl(trade, 2));
    expect(r == "resolution error", "only_same(TSL[Quote,2], TSL[Trade,2]) -> " + r + "   (expected: resolution error)");

    r = describe("both", quote, trade);
    expect(r == "selected independent, output " + std::string{trade->name()},
           "both(Quote, Trade) -> " + r + "   (expected: independent, output Trade)");
    r = describe("both", trade, quote);
    expect(r == "selected independent, output " + std::string{quote->name()},
           "both(Trade, Quote) -> " + r + "   (expected: independent, output Quote)");

    std::cout << (failures == 0 ? "OK\n" : "FAIL: a type variable was accepted for two different types\n");
    return failures == 0 ? 0 : 1;
}
