#include <hgraph/lib/testing/eval_node.h>
#include <hgraph/lib/testing/record_replay.h>
#include <hgraph/lib/testing/runtime_support.h>
#include <hgraph/lib/std/std_operators.h>
#include <hgraph/types/graph_wiring.h>
#include <hgraph/types/static_node.h>
#include <hgraph/types/time_series/ts_delta.h>
#include <hgraph/types/time_series/ts_output.h>
#include <iostream>
#include <optional>
using namespace hgraph; using namespace hgraph::testing;
using DD = TSD<Int,TSS<Int>>;
std::optional<TSOutput> shadow;
struct Prod { static constexpr auto name="prod";
  static void eval(In<"c", TS<Int>> c, Out<DD> out){
    if (c.value()==0) { out[1].add(5); }
    else if (c.value()==1) { (void)out.erase(1); out[1].add(6); }
    else if (c.value()==2) { out[1].add(7); (void)out.erase(1); out[1].add(8); }
  } };
struct Obs { static constexpr auto name="obs";
  static void eval(In<"x", DD, InputValidity::Unchecked> x, DateTime now){ const TSInputView &in=x.base();
    if (!shadow) shadow.emplace(in.schema());
    Value d = capture_delta(in); apply_delta(shadow->view(now), d.view());
    std::cout << (now-MIN_ST).count() << " delta=" << d.view().to_string() << " value=" << (in.valid()? in.value().to_string():"<invalid>")
              << " prev+delta=" << shadow->view(now).value().to_string() << "\n"; } };
struct G { static constexpr auto name="g"; static void compose(Wiring &w){ wire<Obs>(w, wire<Prod>(w, wire<stdlib::replay_impl,TS<Int>>(w,Str{"a"}))); } };
int main(){ stdlib::register_standard_operators(); auto gb=build_graph<G>();
  set_replay_values<Int>(gb.global_state(),"a",{0,1,2});
  { auto ex=run_graph(std::move(gb),MIN_ST,MIN_ST+TimeDelta{5}); } shadow.reset(); }
