// F16 (C19): a bundle schema variable WITH an accepted-bundle list, used on an input parameter (TSB[~S: BundleA]), must reject a
// bundle the list does not contain.  input_ts_pattern_match (the matcher resolve uses for supplied arguments) bound the variable
// without asking ts_allowed_by_constraints, although ts_pattern_match does: the candidate was selected for BundleC (another field).
// expected: "TSB[~S: BundleA] (C): nomatch" and both matchers answer 0; with the defect "sel:con_tsb ... -> BundleC" and 0 / 1.
// (scenario reported by an independent round-7 sub-agent on the unchanged tree)
#include <hgraph/types/operator_dispatch.h>
#include <hgraph/types/type_pattern.h>
#include <hgraph/types/metadata/type_registry.h>
#include <iostream>
using namespace hgraph;
static WiringArg ts_arg(const TSValueTypeMetaData *s){ WiringArg a; a.kind=WiringArg::Kind::TimeSeries; a.port.schema=s; return a; }
static void reg(const std::string &op, const std::string &label, std::vector<TypePattern> ins, TypePattern out){
  OperatorImpl impl; impl.name=op; impl.label=label;
  for (size_t i=0;i<ins.size();++i){ ParamPattern p; p.kind=ParamPattern::Kind::Input; p.name="a"+std::to_string(i); p.ts=ins[i]; impl.params.push_back(p);}
  impl.has_output=true; impl.output=out; impl.rank=operator_dispatch_detail::operator_rank(impl.params);
  OperatorRegistry::instance().register_overload(std::move(impl));
}
static std::string run(const std::string &op, std::vector<const TSValueTypeMetaData*> t){
  std::vector<WiringArg> args; for (auto *x: t) args.push_back(ts_arg(x));
  try { auto r=OperatorRegistry::instance().resolve(op, std::span<const WiringArg>{args}, true);
        auto *o=ts_pattern_resolve(r.impl->output, r.map); return "sel:"+r.impl->label+" -> "+std::string(o?o->name():"<null>"); }
  catch (const OperatorResolutionError &e){ std::string w=e.what(); return w.find("ambiguous overloads")!=std::string::npos?"ambiguous":"nomatch"; }
  catch (const std::exception &e){ return std::string("EXC ")+e.what(); }
}
int main(){
  auto &r=TypeRegistry::instance();
  auto *ti=ts_type<TS<Int>>();
  auto *A=r.tsb("BundleA", {{"x",ti}});
  auto *C=r.tsb("BundleC", {{"y",ti}});
  TypePattern c=TypePattern::tsb_var("S"); c.constraints={A};
  reg("con_tsb","con_tsb(TSB[~S: A])",{c},TypePattern::tsb_var("S"));
  const std::string on_c = run("con_tsb",{C}), on_a = run("con_tsb",{A});
  ResolutionMap m1, m2;
  const bool plain = ts_pattern_match(c,C,m1), input = input_ts_pattern_match(c,C,m2);
  std::cout<<"TSB[~S: BundleA] (C): "<<on_c<<"\nTSB[~S: BundleA] (A): "<<on_a<<"\n  ts_pattern_match says "<<plain<<", input_ts_pattern_match says "<<input<<"\n";
  const bool ok = on_c=="nomatch" && on_a.rfind("sel:con_tsb",0)==0 && !plain && !input;
  std::cout<<(ok?"OK":"F16: a constrained bundle variable accepted a bundle outside its list")<<"\n";
  return ok?0:1;
}
