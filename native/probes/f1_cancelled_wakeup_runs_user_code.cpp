// F1 (C03): a node schedules a tagged wake-up and cancels it in the same evaluation; the graph slot stays armed
// and user code runs again at the cancelled time although no active input ticked and nothing is pending.
// expected out = 1 (then nothing) ; the tree gives 1 none none -1
#include <hgraph/lib/testing/eval_node.h>
#include <hgraph/lib/testing/record_replay.h>
#include <hgraph/lib/testing/runtime_support.h>
#include <hgraph/lib/std/std_operators.h>
#include <hgraph/runtime/node_scheduler.h>
#include <hgraph/types/graph_wiring.h>
#include <hgraph/types/static_node.h>
#include <iostream>
using namespace hgraph;
using namespace hgraph::testing;
struct N { static constexpr auto name="n";
  static void eval(In<"ts",TS<Int>> ts, NodeScheduler sched, Out<TS<Int>> out){
    if (ts.modified()) { sched.schedule(MIN_TD*3, std::string("a")); sched.un_schedule("a"); out.set(ts.value()); return; }
    std::cerr << "spurious evaluation: modified=" << ts.modified() << " is_scheduled_now=" << sched.is_scheduled_now()
              << " is_scheduled=" << sched.is_scheduled() << "\n";
    out.set(Int{-1}); } };
struct G { static constexpr auto name="g";
  static void compose(Wiring &w){
    auto a=wire<stdlib::replay_impl,TS<Int>>(w,Str{"a"});
    wire<stdlib::dense_record_impl>(w, wire<N>(w,a), Str{"out"}); } };
int main(){
  auto gb=build_graph<G>();
  set_replay_values<Int>(gb.global_state(),"a",{1, std::nullopt, std::nullopt, std::nullopt, std::nullopt, std::nullopt});
  auto ex=run_graph(std::move(gb),MIN_ST,MAX_ET);
  auto out=get_recorded_values<Int>(ex.view().graph().global_state(),"out");
  std::string s; for (auto &v: out){ s += v.has_value()? std::to_string(*v): std::string("none"); s += " "; }
  std::cout << s << "\n";
  return s.find("-1")==std::string::npos ? 0 : 1;
}
