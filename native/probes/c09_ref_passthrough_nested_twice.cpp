#include <hgraph/lib/testing/eval_node.h>
#include <hgraph/lib/testing/record_replay.h>
#include <hgraph/lib/testing/runtime_support.h>
#include <hgraph/lib/std/std_operators.h>
#include <hgraph/runtime/node_scheduler.h>
#include <hgraph/types/graph_wiring.h>
#include <hgraph/types/static_node.h>
#include <hgraph/types/subgraph_wiring.h>
#include <iostream>
#include <optional>
#include <vector>
using namespace hgraph;
using namespace hgraph::testing;
namespace {
using Stream = std::vector<std::pair<long, long>>;
Stream g_stream;
struct Sink { static constexpr auto name = "sink";
  static void eval(In<"x", TS<Int>> x, DateTime now) { g_stream.emplace_back((long)(now - MIN_ST).count(), (long)x.value()); } };
struct Ident { static constexpr auto name = "ident";
  static void eval(In<"x", TS<Int>> x, Out<TS<Int>> out) { out.set(x.value()); } };
struct RefSelector { static constexpr auto name = "ref_selector";
  static void eval(In<"pick_rhs", TS<Bool>> pick_rhs, In<"lhs", TS<Int>, InputValidity::Unchecked> lhs,
                   In<"rhs", TS<Int>, InputValidity::Unchecked> rhs, Out<REF<TS<Int>>> out) {
    if (pick_rhs.modified()) { out.set(pick_rhs.value() ? rhs.reference() : lhs.reference()); } } };
struct LateTicker { static constexpr auto name = "late_ticker";
  static void start(NodeScheduler s) { s.schedule(s.now() + TimeDelta{3}); }
  static void eval(NodeScheduler s, State<Int> n, Out<TS<Int>> out) { Int v = n.get(); out.set(v); n.set(v + 1); if (v + 1 < 4) s.schedule(TimeDelta{4}); } };
struct SampleOnAlarm { static constexpr auto name = "sample_on_alarm";
  static void eval(In<"alarm", TS<Int>> alarm, In<"price", TS<Int>, InputActivity::Passive, InputValidity::Unchecked> price, Out<TS<Int>> out) {
    out.set(alarm.value() * 1000 + (price.valid() ? price.value() : Int{-1})); } };

struct SPass { static constexpr auto name = "s_pass"; static Port<TS<Int>> compose(Wiring &, Port<TS<Int>> in) { return in; } };
struct SIdent { static constexpr auto name = "s_ident"; static Port<TS<Int>> compose(Wiring &w, Port<TS<Int>> in) { return wire<Ident>(w, in); } };
struct SSample { static constexpr auto name = "s_sample"; static Port<TS<Int>> compose(Wiring &w, Port<TS<Int>> in) { return wire<SampleOnAlarm>(w, wire<LateTicker>(w), in); } };

template <typename S> struct W1 { static constexpr auto name = "w1"; static Port<TS<Int>> compose(Wiring &w, Port<TS<Int>> in) { return nested_<S>(w, in); } };

// plain source
template <typename S, int Mode> struct GP { static constexpr auto name = "gp";
  static void compose(Wiring &w) {
    auto in = wire<stdlib::replay_impl, TS<Int>>(w, Str{"lhs"});
    if constexpr (Mode == 0) wire<Sink>(w, wire<S>(w, in));
    else if constexpr (Mode == 1) wire<Sink>(w, nested_<S>(w, in));
    else wire<Sink>(w, nested_<W1<S>>(w, in)); } };
// REF source
template <typename S, int Mode> struct GR { static constexpr auto name = "gr";
  static void compose(Wiring &w) {
    auto pick = wire<stdlib::replay_impl, TS<Bool>>(w, Str{"pick"});
    auto lhs = wire<stdlib::replay_impl, TS<Int>>(w, Str{"lhs"});
    auto rhs = wire<stdlib::replay_impl, TS<Int>>(w, Str{"rhs"});
    auto ref = wire<RefSelector>(w, pick, lhs, rhs);
    if constexpr (Mode == 0) wire<Sink>(w, wire<S>(w, ref));
    else if constexpr (Mode == 1) wire<Sink>(w, nested_<S>(w, ref));
    else wire<Sink>(w, nested_<W1<S>>(w, ref)); } };

template <typename G> Stream run() {
  constexpr auto none = std::nullopt;
  g_stream.clear(); auto gb = build_graph<G>();
  set_replay_values<Bool>(gb.global_state(), "pick", {Bool{false}, none, Bool{true}, none, Bool{false}, none, none, none, none, Bool{true}});
  set_replay_values<Int>(gb.global_state(), "lhs", {Int{1}, Int{2}, none, Int{4}, none, none, Int{5}, none, none, none, none, none, Int{6}});
  set_replay_values<Int>(gb.global_state(), "rhs", {Int{10}, none, Int{30}, none, Int{50}, none, none, none, Int{60}, none, none, none, none, Int{70}});
  auto ex = run_graph(std::move(gb), MIN_ST, MIN_ST + TimeDelta{60}); return g_stream; }
void print(const Stream &s) { for (auto &[t, v] : s) std::cout << " (" << t << "," << v << ")"; std::cout << "\n"; }
int rc = 0;
template <template <typename, int> class G, typename S> void check(const char *label) {
  auto a = run<G<S, 0>>(); auto b = run<G<S, 1>>(); auto c = run<G<S, 2>>();
  std::cout << label << "\n  inline :"; print(a); std::cout << "  nested :"; print(b); std::cout << "  nested2:"; print(c);
  if (a.empty() || a != b || a != c) { std::cout << "  MISMATCH\n"; rc = 1; } }
}
int main() {
  check<GP, SPass>("plain source, pass-through");
  check<GP, SIdent>("plain source, identity");
  check<GR, SPass>("REF source, pass-through");
  check<GR, SIdent>("REF source, identity");
  check<GR, SSample>("REF source, sampled on internal alarm");
  std::cout << (rc == 0 ? "EXPLORE OK\n" : "EXPLORE FAIL\n");
  return rc; }
