// F3 (C15/C01/C03): a failure inside a nested graph captured by try_except_ leaves the child's
// evaluation_cursor on the failing node; the next cycle must be a fresh one.
// expected out = 15 none 37 48 ; a tree with the defect gives 15 none 27 48
#include <hgraph/lib/testing/eval_node.h>
#include <hgraph/lib/testing/record_replay.h>
#include <hgraph/lib/testing/runtime_support.h>
#include <hgraph/lib/std/std_operators.h>
#include <hgraph/runtime/node_error.h>
#include <hgraph/runtime/node_scheduler.h>
#include <hgraph/types/graph_wiring.h>
#include <hgraph/types/static_node.h>
#include <hgraph/types/subgraph_wiring.h>
#include <iostream>
#include <string>
#include <vector>
using namespace hgraph;
using namespace hgraph::testing;
static std::vector<std::string> LOG;
struct Pre  { static constexpr auto name="pre";
  static void eval(In<"x",TS<Int>> x, Out<TS<Int>> out){ LOG.push_back("pre"); out.set(x.value()*10); } };
struct Boom { static constexpr auto name="boom";
  static void eval(In<"x",TS<Int>> x, In<"y",TS<Int>> y, Out<TS<Int>> out){
    if (y.value()==0) throw std::runtime_error("bad"); out.set(x.value()+y.value()); } };
struct Inner { static constexpr auto name="inner_g";
  static Port<TS<Int>> compose(Wiring &w, Port<TS<Int>> a, Port<TS<Int>> b){ return wire<Boom>(w, wire<Pre>(w,a), b); } };
using TryIntResult = UnNamedTSB<Field<"exception", TS<NodeError>>, Field<"out", TS<Int>>>;
struct TryOutValue { static constexpr auto name="try_out_value";
  static void eval(In<"r",TryIntResult,InputValidity::Unchecked> r, Out<TS<Int>> out){
    auto f=r.template field<"out">(); if (f.valid()&&f.modified()) out.set(f.value()); } };
struct G { static constexpr auto name="g";
  static void compose(Wiring &w){
    auto a=wire<stdlib::replay_impl,TS<Int>>(w,Str{"a"}); auto b=wire<stdlib::replay_impl,TS<Int>>(w,Str{"b"});
    auto r=try_except_<Inner>(w,a,b).as<TryIntResult>();
    wire<stdlib::dense_record_impl>(w, wire<TryOutValue>(w,r), Str{"out"}); } };
int main(){
  auto gb=build_graph<G>();
  set_replay_values<Int>(gb.global_state(),"a",{1,2,3,4});
  set_replay_values<Int>(gb.global_state(),"b",{5,0,7,8});
  auto ex=run_graph(std::move(gb),MIN_ST,MAX_ET);
  auto out=get_recorded_values<Int>(ex.view().graph().global_state(),"out");
  std::string s;
  for (auto &v: out){ s += v.has_value()? std::to_string(*v): std::string("none"); s += " "; }
  std::cout << s << "\n";
  return s=="15 none 37 48 " ? 0 : 1;
}
