// F6 (C14): a map_ node with three live children; at graph stop the first child's stop throws.
// "a failing stop does not prevent the remaining nodes from stopping" and every started node is stopped "no later than
// the return of the run": expected at the return of run(): starts == 3 and stops == 3.
#include <hgraph/lib/testing/eval_node.h>
#include <hgraph/lib/testing/record_replay.h>
#include <hgraph/lib/testing/runtime_support.h>
#include <hgraph/lib/std/std_operators.h>
#include <hgraph/lib/std/operators/impl/operators_impl.h>
#include <hgraph/lib/std/std_nodes.h>
#include <hgraph/lib/std/value_util.h>
#include <hgraph/runtime/map_node.h>
#include <hgraph/types/graph_wiring.h>
#include <hgraph/types/static_node.h>
#include <hgraph/types/subgraph_wiring.h>
#include <hgraph/types/wired_fn.h>
#include <iostream>
using namespace hgraph;
using namespace hgraph::testing;
using namespace std::string_literals;
static int starts = 0, stops = 0;
struct Child { static constexpr auto name = "child_node";
  static void start() { ++starts; }
  static void stop() { ++stops; if (stops == 1) throw std::runtime_error("child stop fails"); }
  static void eval(In<"ts", TS<Int>> ts, Out<TS<Int>> out) { out.set(ts.value()); } };
struct G { static constexpr auto name = "g";
  static void compose(Wiring &w) {
    auto s = wire<stdlib::replay_impl, TSD<Str, TS<Int>>>(w, Str{"a"});
    auto m = wire<stdlib::map_>(w, fn<Child>(), s).as<TSD<Str, TS<Int>>>();
    wire<stdlib::dense_record_impl>(w, m, Str{"out"}); } };
int main() {
  stdlib::register_higher_order_operators();
  stdlib::register_record_replay_memory_operators();
  auto gb = build_graph<G>();
  set_replay_values<Value>(gb.global_state(), "a", {dict_delta<Str, TS<Int>>({{"a"s, 1}, {"b"s, 2}, {"c"s, 3}})});
  GraphExecutorBuilder eb;
  eb.graph_builder(std::move(gb)).mode(GraphExecutorMode::Simulation).start_time(MIN_ST).end_time(MIN_ST + TimeDelta{3});
  int at_return_starts = -1, at_return_stops = -1;
  std::string err;
  {
    GraphExecutorValue ex = eb.make_executor();
    try { ex.view().run(); } catch (const std::exception &e) { err = e.what(); }
    at_return_starts = starts; at_return_stops = stops;
  }
  std::cout << "at return of run: starts=" << at_return_starts << " stops=" << at_return_stops << "\n";
  std::cout << "after executor release: starts=" << starts << " stops=" << stops << "\n";
  std::cout << "error: " << err.substr(0, 160) << "\n";
  bool ok = at_return_starts == 3 && at_return_stops == 3 && err.find("child stop fails") != std::string::npos;
  std::cout << (ok ? "OK" : "FAIL: children left started at the return of the run") << "\n";
  return ok ? 0 : 1;
}
