#include <hgraph/lib/testing/eval_node.h>
#include <hgraph/lib/testing/record_replay.h>
#include <hgraph/lib/testing/runtime_support.h>
#include <hgraph/lib/std/std_operators.h>
#include <hgraph/types/graph_wiring.h>
#include <hgraph/types/static_node.h>
#include <iostream>
using namespace hgraph;
using namespace hgraph::testing;
struct Sum { static constexpr auto name="sum";
  static void eval(In<"x",TS<Int>> x, In<"y",TS<Int>> y, Out<TS<Int>> out){ out.set(x.value()+y.value()); } };
template<bool Both> struct G { static constexpr auto name="g";
  static void compose(Wiring &w){
    auto x=wire<stdlib::replay_impl,TS<Int>>(w,Str{"x"});
    auto y=wire<stdlib::replay_impl,TS<Int>>(w,Str{"y"});
    if constexpr (Both) wire<stdlib::dense_record_impl>(w, wire<Sum>(w,x,y), Str{"o1"});
    wire<stdlib::dense_record_impl>(w, wire<Sum>(w,x,passive(y)), Str{"o2"}); } };
template<bool Both> void run(){
  auto gb=build_graph<G<Both>>();
  set_replay_values<Int>(gb.global_state(),"x",{1, std::nullopt, 3});
  set_replay_values<Int>(gb.global_state(),"y",{10, 20, std::nullopt});
  auto ex=run_graph(std::move(gb),MIN_ST,MAX_ET);
  auto out=get_recorded_values<Int>(ex.view().graph().global_state(),"o2");
  std::cout << (Both? "with sibling active Sum(x,y): ":"alone: ");
  for (auto &v: out) std::cout << (v.has_value()? std::to_string(*v): std::string("none")) << " ";
  std::cout << "\n"; }
int main(){ run<false>(); run<true>(); }
