// F5 (C14): start of node C fails; while start_impl rolls back, stop of node B throws.
// Every node whose start completed must still get its stop attempt ("a failing stop does not prevent the
// remaining nodes from stopping"): expected counts  A: start=1 stop=1, B: start=1 stop=1, C: start=1 stop=0.
#include <hgraph/lib/testing/eval_node.h>
#include <hgraph/lib/testing/record_replay.h>
#include <hgraph/lib/testing/runtime_support.h>
#include <hgraph/lib/std/std_operators.h>
#include <hgraph/types/graph_wiring.h>
#include <hgraph/types/static_node.h>
#include <iostream>
using namespace hgraph;
using namespace hgraph::testing;
static int a_start=0,a_stop=0,b_start=0,b_stop=0,c_start=0,c_stop=0;
struct A { static constexpr auto name="a_node";
  static void start(){ ++a_start; } static void stop(){ ++a_stop; }
  static void eval(In<"x",TS<Int>> x, Out<TS<Int>> out){ out.set(x.value()); } };
struct B { static constexpr auto name="b_node";
  static void start(){ ++b_start; } static void stop(){ ++b_stop; throw std::runtime_error("B stop fails"); }
  static void eval(In<"x",TS<Int>> x, Out<TS<Int>> out){ out.set(x.value()); } };
struct C { static constexpr auto name="c_node";
  static void start(){ ++c_start; throw std::runtime_error("C start fails"); } static void stop(){ ++c_stop; }
  static void eval(In<"x",TS<Int>> x, Out<TS<Int>> out){ out.set(x.value()); } };
struct G { static constexpr auto name="g";
  static void compose(Wiring &w){
    auto s=wire<stdlib::replay_impl,TS<Int>>(w,Str{"a"});
    auto a=wire<A>(w,s); auto b=wire<B>(w,a); auto c=wire<C>(w,b);
    wire<stdlib::dense_record_impl>(w, c, Str{"out"}); } };
int main(){
  auto gb=build_graph<G>();
  set_replay_values<Int>(gb.global_state(),"a",{1,2});
  std::string err;
  try { auto ex=run_graph(std::move(gb),MIN_ST,MAX_ET); } catch (const std::exception &e) { err=e.what(); }
  std::cout << "A " << a_start << "/" << a_stop << " B " << b_start << "/" << b_stop << " C " << c_start << "/" << c_stop << "\n";
  std::cout << "error: " << err.substr(0,120) << "\n";
  bool ok = a_start==1 && a_stop==1 && b_start==1 && b_stop==1 && c_start==1 && c_stop==0 && err.find("C start fails")!=std::string::npos;
  return ok?0:1;
}
