#include <hgraph/lib/testing/eval_node.h>
#include <hgraph/lib/testing/record_replay.h>
#include <hgraph/lib/testing/runtime_support.h>
#include <hgraph/lib/std/std_operators.h>
#include <hgraph/runtime/node_scheduler.h>
#include <hgraph/runtime/node_error.h>
#include <hgraph/types/graph_wiring.h>
#include <hgraph/types/static_node.h>
#include <hgraph/types/subgraph_wiring.h>
#include <iostream>
#include <string>
#include <vector>
using namespace hgraph;
using namespace hgraph::testing;
template <typename T> std::string show(const std::vector<std::optional<T>> &v){
  std::string s; for (auto &e: v){ if(e.has_value()){ if constexpr(std::is_same_v<T,Str>) s+=*e; else s+=std::to_string(*e);} else s+="-"; s+=" "; } return s; }
std::string showd(const std::vector<std::optional<Value>> &v){ std::string s; for (auto &e: v){ s += e.has_value()? e->to_string(): std::string("-"); s+=" | "; } return s; }
static std::string g_timer;
struct Pulse { static constexpr auto name="pulse"; static constexpr bool schedule_on_start = true;
  static void eval(NodeScheduler sched, In<"fault",TS<Int>, InputValidity::Unchecked> fault, State<Int> n, Out<TS<Int>> out){
    if (!(sched.is_scheduled_now() || !sched.has_tag("p"))) return;
    const Int k = n.get(); n.set(k+1);
    if (k < 4) sched.schedule(MIN_TD*2, "p");
    if (fault.valid() && fault.value()==k) throw std::runtime_error("pulse fault");
    out.set(k); } };
struct PulseG { static constexpr auto name="pulse_g";
  static Port<TS<Int>> compose(Wiring &w, Port<TS<Int>> fault){ return wire<Pulse>(w, fault); } };
struct OuterG { static constexpr auto name="outer_g";
  static Port<TS<Int>> compose(Wiring &w, Port<TS<Int>> fault){ return nested_<PulseG>(w, fault).template as<TS<Int>>(); } };
struct Timer { static constexpr auto name="timer"; static constexpr bool schedule_on_start = true;
  static void eval(NodeScheduler sched, State<Int> n, Out<TS<Int>> out){
    const Int k = n.get(); n.set(k+1);
    g_timer += std::to_string((sched.now()-MIN_ST)/MIN_TD)+" ";
    if (k < 4) sched.schedule(MIN_TD*3, "t");
    out.set(k); } };
struct ThrowOnNegative { static constexpr auto name = "throw_on_negative";
  static void eval(In<"x", TS<Int>> x, Out<TS<Int>> out){ if (x.value() < 0) throw std::runtime_error("negative input"); out.set(x.value()*2); } };
struct Combine { static constexpr auto name="combine";
  static void eval(In<"a",TS<Int>, InputValidity::Unchecked> a, In<"b",TS<Int>, InputValidity::Unchecked> b, Out<TS<Int>> out){ out.set((a.valid()?a.value():0)*100 + (b.valid()?b.value():0)); } };
struct ChildAB { static constexpr auto name="child_ab";
  static Port<TS<Int>> compose(Wiring &w, Port<TS<Int>> x){ auto a=wire<ThrowOnNegative>(w,x); auto t=wire<Timer>(w); return wire<Combine>(w,a,t);} };
using TryIntResult = UnNamedTSB<Field<"exception", TS<NodeError>>, Field<"out", TS<Int>>>;
struct TryOutValue { static constexpr auto name = "try_out_value";
  static void eval(In<"r", TryIntResult, InputValidity::Unchecked> r, Out<TS<Int>> out){ auto f=r.template field<"out">(); if (f.valid()&&f.modified()) out.set(f.value()); } };
struct TryExcMsg { static constexpr auto name = "try_exc_msg";
  static void eval(In<"r", TryIntResult, InputValidity::Unchecked> r, Out<TS<Str>> out){ auto f=r.template field<"exception">(); if (f.valid()&&f.modified()) out.set(f.base().value().as_bundle().at("error_msg").checked_as<Str>()); } };
template <typename C> struct GTry { static constexpr auto name="g_try";
  static void compose(Wiring &w){
    auto f=wire<stdlib::replay_impl,TS<Int>>(w,Str{"x"});
    auto r=try_except_<C>(w,f).template as<TryIntResult>();
    wire<stdlib::dense_record_impl>(w, wire<TryOutValue>(w,r), Str{"out"});
    wire<stdlib::dense_record_impl>(w, wire<TryExcMsg>(w,r), Str{"err"}); } };
struct ErrorMsgOf { static constexpr auto name = "error_msg_of";
  static void eval(In<"e", TS<NodeError>> e, Out<TS<Str>> out){ out.set(e.base().value().as_bundle().at("error_msg").checked_as<Str>()); } };
struct ErrorMsgG { static constexpr auto name = "error_msg_g";
  static Port<TS<Str>> compose(Wiring &w, Port<TS<NodeError>> error){ return wire<ErrorMsgOf>(w, error); } };
struct GMapAB { static constexpr auto name="g_map_ab";
  static void compose(Wiring &w){
    auto f=wire<stdlib::replay_impl,TSD<Int,TS<Int>>>(w,Str{"x"});
    auto mapped = wire<stdlib::map_>(w, fn<ChildAB>(), f).as<TSD<Int, TS<Int>>>();
    Port<TSD<Int, TS<NodeError>>> errors = exception_time_series(mapped);
    auto msgs = wire<stdlib::map_>(w, fn<ErrorMsgG>(), errors).as<TSD<Int, TS<Str>>>();
    wire<stdlib::dense_record_impl>(w, mapped, Str{"out"});
    wire<stdlib::dense_record_impl>(w, msgs, Str{"err"}); } };
template <typename G> void run(const char* label, std::vector<std::optional<Int>> x){
  g_timer.clear();
  auto gb=build_graph<G>();
  set_replay_values<Int>(gb.global_state(),"x",x);
  auto ex=run_graph(std::move(gb),MIN_ST,MIN_ST+MIN_TD*30);
  auto gs=ex.view().graph().global_state();
  std::cout<<label<<" out: "<<show(get_recorded_values<Int>(gs,"out"))<<"\n";
  std::cout<<label<<" err: "<<show(get_recorded_values<Str>(gs,"err"))<<"\n";
  std::cout<<label<<" timer: "<<g_timer<<"\n";
}
void runmap(const char* label, std::vector<std::optional<Value>> x){
  g_timer.clear();
  auto gb=build_graph<GMapAB>();
  set_replay_deltas(gb.global_state(),"x",x);
  auto ex=run_graph(std::move(gb),MIN_ST,MIN_ST+MIN_TD*30);
  auto gs=ex.view().graph().global_state();
  std::cout<<label<<" out: "<<showd(get_recorded_deltas(gs,"out"))<<"\n";
  std::cout<<label<<" err: "<<showd(get_recorded_deltas(gs,"err"))<<"\n";
  std::cout<<label<<" timer: "<<g_timer<<"\n";
}
int main(){
  stdlib::register_standard_operators();
  using O=std::optional<Int>; O n=std::nullopt;
  run<GTry<OuterG>>("nested-in-try clean", {100});
  run<GTry<OuterG>>("nested-in-try fault2", {2});
  run<GTry<PulseG>>("direct-in-try fault2", {2});
  using D = std::optional<Value>;
  auto d  = [](std::initializer_list<std::pair<Int, Int>> kv) { return D{dict_delta<Int, TS<Int>>(kv)}; };
  runmap("mapAB clean", {d({{1,1}}), std::nullopt, d({{1,2}}), std::nullopt, std::nullopt, std::nullopt, std::nullopt, d({{1,3}})});
  runmap("mapAB fault", {d({{1,1}}), std::nullopt, d({{1,-1}}), std::nullopt, std::nullopt, std::nullopt, std::nullopt, d({{1,3}})});
  return 0;
}
