// F7 (C14): a reduce_ node over a keyed dictionary with four live keys (three combiner child graphs); at graph stop the
// first combiner's stop throws.  "a failing stop does not prevent the remaining nodes from stopping" and every started
// node is stopped "no later than the return of the run": expected at the return of run(): stops == starts.
#include <hgraph/lib/testing/eval_node.h>
#include <hgraph/lib/testing/record_replay.h>
#include <hgraph/lib/testing/runtime_support.h>
#include <hgraph/lib/std/std_operators.h>
#include <hgraph/lib/std/operators/impl/operators_impl.h>
#include <hgraph/lib/std/std_nodes.h>
#include <hgraph/lib/std/value_util.h>
#include <hgraph/types/graph_wiring.h>
#include <hgraph/types/static_node.h>
#include <hgraph/types/subgraph_wiring.h>
#include <hgraph/types/wired_fn.h>
#include <iostream>
using namespace hgraph;
using namespace hgraph::testing;
using namespace std::string_literals;
static int starts = 0, stops = 0;
struct Combiner { static constexpr auto name = "combiner_node";
  static void start() { ++starts; }
  static void stop() { ++stops; if (stops == 1) throw std::runtime_error("combiner stop fails"); }
  static void eval(In<"lhs", TS<Int>> lhs, In<"rhs", TS<Int>> rhs, Out<TS<Int>> out) { out.set(lhs.value() + rhs.value()); } };
struct G { static constexpr auto name = "g";
  static void compose(Wiring &w) {
    auto s = wire<stdlib::replay_impl, TSD<Str, TS<Int>>>(w, Str{"a"});
    auto z = wire<stdlib::replay_impl, TS<Int>>(w, Str{"z"});
    auto r = wire<stdlib::reduce_>(w, fn<Combiner>(), s, z).as<TS<Int>>();
    wire<stdlib::dense_record_impl>(w, r, Str{"out"}); } };
int main() {
  stdlib::register_arithmetic_operators();
  stdlib::register_comparison_operators();
  stdlib::register_logical_operators();
  stdlib::register_container_operators();
  stdlib::register_collection_operators();
  stdlib::register_control_operators();
  stdlib::register_higher_order_operators();
  stdlib::register_record_replay_memory_operators();
  auto gb = build_graph<G>();
  set_replay_values<Value>(gb.global_state(), "a",
      {dict_delta<Str, TS<Int>>({{"a"s, 1}, {"b"s, 2}, {"c"s, 3}, {"d"s, 4}})});
  set_replay_values<Int>(gb.global_state(), "z", {0});
  GraphExecutorBuilder eb;
  eb.graph_builder(std::move(gb)).mode(GraphExecutorMode::Simulation).start_time(MIN_ST).end_time(MIN_ST + TimeDelta{3});
  int at_return_starts = -1, at_return_stops = -1;
  std::string err;
  {
    GraphExecutorValue ex = eb.make_executor();
    try { ex.view().run(); } catch (const std::exception &e) { err = e.what(); }
    at_return_starts = starts; at_return_stops = stops;
  }
  std::cout << "at return of run: starts=" << at_return_starts << " stops=" << at_return_stops << "\n";
  std::cout << "after executor release: starts=" << starts << " stops=" << stops << "\n";
  std::cout << "error: " << err.substr(0, 100) << "\n";
  bool ok = at_return_starts >= 2 && at_return_stops == at_return_starts && err.find("combiner stop fails") != std::string::npos;
  std::cout << (ok ? "OK" : "FAIL: combiner children left started at the return of the run") << "\n";
  return ok ? 0 : 1;
}
