// F15 (C15/C02): a captured failure (try_except_) of a node ranked BEFORE an independent timer node must not cost the timer its
// pending wake-ups.  expected: 'AB fault timer cycles' == 'AB clean timer cycles' (0 3 6 9 12); the defect gives '0'.
// (scenario found by independent sub-agents on the unchanged tree, round 6)
#include <hgraph/lib/testing/eval_node.h>
#include <hgraph/lib/testing/record_replay.h>
#include <hgraph/lib/testing/runtime_support.h>
#include <hgraph/lib/std/std_operators.h>
#include <hgraph/runtime/node_scheduler.h>
#include <hgraph/runtime/node_error.h>
#include <hgraph/types/graph_wiring.h>
#include <hgraph/types/static_node.h>
#include <hgraph/types/subgraph_wiring.h>
#include <iostream>
#include <string>
#include <vector>
using namespace hgraph;
using namespace hgraph::testing;

template <typename T> std::string show(const std::vector<std::optional<T>> &v){
  std::string s; for (auto &e: v){ if(e.has_value()){ if constexpr(std::is_same_v<T,Str>) s+=*e; else s+=std::to_string(*e);} else s+="-"; s+=" "; } return s; }
static std::vector<long> g_timer;
struct Timer { static constexpr auto name="timer"; static constexpr bool schedule_on_start = true;
  static void eval(NodeScheduler sched, State<Int> n, Out<TS<Int>> out){
    const Int k = n.get(); n.set(k+1);
    g_timer.push_back((sched.now()-MIN_ST)/MIN_TD);
    if (k < 4) sched.schedule(MIN_TD*3, "t");
    out.set(k);
  } };
struct ThrowOnNegative { static constexpr auto name = "throw_on_negative";
  static void eval(In<"x", TS<Int>> x, Out<TS<Int>> out){ if (x.value() < 0) throw std::runtime_error("negative input"); out.set(x.value()*2); } };
struct Add { static constexpr auto name="add";
  static void eval(In<"a",TS<Int>, InputValidity::Unchecked> a, In<"b",TS<Int>, InputValidity::Unchecked> b, Out<TS<Int>> out){ out.set((a.valid()?a.value():0)*100 + (b.valid()?b.value():0)); } };
struct ChildAB { static constexpr auto name="child_ab";   // thrower first, timer second
  static Port<TS<Int>> compose(Wiring &w, Port<TS<Int>> x){ auto a=wire<ThrowOnNegative>(w,x); auto t=wire<Timer>(w); return wire<Add>(w,a,t);} };
struct ChildBA { static constexpr auto name="child_ba";   // timer first
  static Port<TS<Int>> compose(Wiring &w, Port<TS<Int>> x){ auto t=wire<Timer>(w); auto a=wire<ThrowOnNegative>(w,x); return wire<Add>(w,a,t);} };
using TryIntResult = UnNamedTSB<Field<"exception", TS<NodeError>>, Field<"out", TS<Int>>>;
struct TryOutValue { static constexpr auto name = "try_out_value";
  static void eval(In<"r", TryIntResult, InputValidity::Unchecked> r, Out<TS<Int>> out){ auto f=r.template field<"out">(); if (f.valid()&&f.modified()) out.set(f.value()); } };
struct TryExcMsg { static constexpr auto name = "try_exc_msg";
  static void eval(In<"r", TryIntResult, InputValidity::Unchecked> r, Out<TS<Str>> out){ auto f=r.template field<"exception">(); if (f.valid()&&f.modified()) out.set(f.base().value().as_bundle().at("error_msg").checked_as<Str>()); } };
template <typename C> struct GTry { static constexpr auto name="g_try";
  static void compose(Wiring &w){
    auto f=wire<stdlib::replay_impl,TS<Int>>(w,Str{"x"});
    auto r=try_except_<C>(w,f).template as<TryIntResult>();
    wire<stdlib::dense_record_impl>(w, wire<TryOutValue>(w,r), Str{"out"});
    wire<stdlib::dense_record_impl>(w, wire<TryExcMsg>(w,r), Str{"err"}); } };
static std::vector<std::vector<long>> g_runs;
template <typename G> void run(const char* label, std::vector<std::optional<Int>> x){
  g_timer.clear();
  auto gb=build_graph<G>();
  set_replay_values<Int>(gb.global_state(),"x",x);
  auto ex=run_graph(std::move(gb),MIN_ST,MIN_ST+MIN_TD*30);
  auto gs=ex.view().graph().global_state();
  std::cout<<label<<" out: "<<show(get_recorded_values<Int>(gs,"out"))<<"\n";
  std::cout<<label<<" err: "<<show(get_recorded_values<Str>(gs,"err"))<<"\n";
  std::cout<<label<<" timer cycles:"; for(auto t: g_timer) std::cout<<" "<<t; std::cout<<"\n";
  g_runs.emplace_back(g_timer.begin(), g_timer.end());
}
int main(){
  using O=std::optional<Int>; O n=std::nullopt;
  run<GTry<ChildAB>>("AB clean", {1,n,2,n,n,n,n,3});
  run<GTry<ChildAB>>("AB fault", {1,n,-1,n,n,n,n,3});
  run<GTry<ChildBA>>("BA clean", {1,n,2,n,n,n,n,3});
  run<GTry<ChildBA>>("BA fault", {1,n,-1,n,n,n,n,3});
  // F15: the independent timer must keep its wake-ups after a captured failure of another node, whatever the rank order
  const bool ok = g_runs[1]==g_runs[0] && g_runs[3]==g_runs[2];
  std::cout<<(ok?"OK":"F15: timer wake-ups behind the failing node were dropped")<<"\n";
  return ok?0:1;
}
