// Minimal stand-in for Catch2's test macros (Catch2 is not installed in the sandbox and cannot be fetched).
// Only used to run the repository's own tests/cpp files as a differential regression suite for "fix:" commits:
// the same test binary is built against the tree before and after a fix and the per-test verdicts are compared.
// Differences from Catch2: leaf SECTIONs are run one per re-execution of the test body (nested SECTIONs run inline),
// no tags, no generators, no reporters.
#pragma once
#include <cstdio>
#include <cstring>
#include <exception>
#include <functional>
#include <sstream>
#include <string>
#include <vector>

namespace catch_shim {
struct RequireFailed {};
struct TestCase { const char *name; void (*fn)(); };
inline std::vector<TestCase> &registry() { static std::vector<TestCase> r; return r; }
struct Registrar { Registrar(const char *n, void (*f)()) { registry().push_back({n, f}); } };
struct State {
    int failures = 0;
    std::vector<std::string> messages;
    // sections
    int section_counter = 0;       // index of the next top-level section met in this run
    int section_to_run = 0;        // which one this run executes
    int sections_seen = 0;
    int depth = 0;
};
inline State &state() { static State s; return s; }
inline void fail(const char *file, int line, const std::string &what) {
    State &s = state();
    ++s.failures;
    std::ostringstream o; o << file << ":" << line << ": " << what;
    s.messages.push_back(o.str());
}
struct Section {
    bool run;
    explicit Section(const char *) {
        State &s = state();
        if (s.depth > 0) { run = true; ++s.depth; return; }
        int my = s.section_counter++;
        if (my + 1 > s.sections_seen) s.sections_seen = my + 1;
        run = (my == s.section_to_run);
        if (run) ++s.depth;
    }
    ~Section() { if (run) --state().depth; }
    explicit operator bool() const { return run; }
};
template <typename M, typename T> bool match(const M &m, const T &v) { return m.match(v); }
}  // namespace catch_shim

namespace Catch { namespace Matchers {
struct StringMatcher {
    enum Kind { Contains, Starts, Ends, Eq } kind; std::string s;
    bool match(const std::string &v) const {
        switch (kind) {
            case Contains: return v.find(s) != std::string::npos;
            case Starts: return v.rfind(s, 0) == 0;
            case Ends: return v.size() >= s.size() && v.compare(v.size() - s.size(), s.size(), s) == 0;
            default: return v == s; } }
    std::string describe() const { return s; }
};
inline StringMatcher ContainsSubstring(const std::string &s) { return {StringMatcher::Contains, s}; }
inline StringMatcher StartsWith(const std::string &s) { return {StringMatcher::Starts, s}; }
inline StringMatcher EndsWith(const std::string &s) { return {StringMatcher::Ends, s}; }
inline StringMatcher Equals(const std::string &s) { return {StringMatcher::Eq, s}; }
template <typename A, typename B> struct AndMatcher { A a; B b; bool match(const std::string &v) const { return a.match(v) && b.match(v); } };
template <typename A, typename B> struct OrMatcher { A a; B b; bool match(const std::string &v) const { return a.match(v) || b.match(v); } };
inline AndMatcher<StringMatcher, StringMatcher> operator&&(const StringMatcher &a, const StringMatcher &b) { return {a, b}; }
inline OrMatcher<StringMatcher, StringMatcher> operator||(const StringMatcher &a, const StringMatcher &b) { return {a, b}; }
template <typename A, typename B> AndMatcher<AndMatcher<A, B>, StringMatcher> operator&&(const AndMatcher<A, B> &a, const StringMatcher &b) { return {a, b}; }
inline bool shim_match(const StringMatcher &m, const std::string &v) { return m.match(v); }
inline bool shim_match(const std::string &m, const std::string &v) { return m == v; }
inline bool shim_match(const char *m, const std::string &v) { return v == m; }
template <typename A, typename B> bool shim_match(const AndMatcher<A, B> &m, const std::string &v) { return m.match(v); }
template <typename A, typename B> bool shim_match(const OrMatcher<A, B> &m, const std::string &v) { return m.match(v); }
} }  // namespace Catch::Matchers

#define CS_CAT2(a, b) a##b
#define CS_CAT(a, b) CS_CAT2(a, b)
#define CS_TEST_IMPL(fn, ...)                                                               \
    static void fn();                                                                         \
    static ::catch_shim::Registrar CS_CAT(fn, _reg)((::catch_shim::first_arg(__VA_ARGS__)), &fn); \
    static void fn()
namespace catch_shim { inline const char *first_arg(const char *a, const char * = nullptr) { return a; } }
#define TEST_CASE(...) CS_TEST_IMPL(CS_CAT(cs_test_, __COUNTER__), __VA_ARGS__)

#define CS_CHECK_IMPL(expr_text, cond, fatal)                                                \
    do {                                                                                      \
        bool cs_ok = false;                                                                   \
        try { cs_ok = static_cast<bool>(cond); }                                              \
        catch (const ::catch_shim::RequireFailed &) { throw; }                                \
        catch (const std::exception &e) { ::catch_shim::fail(__FILE__, __LINE__, std::string(expr_text " threw: ") + e.what()); if (fatal) throw ::catch_shim::RequireFailed{}; break; } \
        if (!cs_ok) { ::catch_shim::fail(__FILE__, __LINE__, expr_text); if (fatal) throw ::catch_shim::RequireFailed{}; } \
    } while (0)
#define CHECK(...) CS_CHECK_IMPL("CHECK(" #__VA_ARGS__ ")", (__VA_ARGS__), false)
#define CHECK_FALSE(...) CS_CHECK_IMPL("CHECK_FALSE(" #__VA_ARGS__ ")", !(__VA_ARGS__), false)
#define REQUIRE(...) CS_CHECK_IMPL("REQUIRE(" #__VA_ARGS__ ")", (__VA_ARGS__), true)
#define REQUIRE_FALSE(...) CS_CHECK_IMPL("REQUIRE_FALSE(" #__VA_ARGS__ ")", !(__VA_ARGS__), true)
#define STATIC_REQUIRE(...) static_assert(__VA_ARGS__, #__VA_ARGS__)
#define STATIC_CHECK(...) static_assert(__VA_ARGS__, #__VA_ARGS__)
#define CS_NOTHROW_IMPL(text, fatal, ...)                                                    \
    do { try { static_cast<void>(__VA_ARGS__); }                                              \
         catch (const ::catch_shim::RequireFailed &) { throw; }                               \
         catch (const std::exception &e) { ::catch_shim::fail(__FILE__, __LINE__, std::string(text " threw: ") + e.what()); if (fatal) throw ::catch_shim::RequireFailed{}; } \
         catch (...) { ::catch_shim::fail(__FILE__, __LINE__, text " threw"); if (fatal) throw ::catch_shim::RequireFailed{}; } } while (0)
#define CHECK_NOTHROW(...) CS_NOTHROW_IMPL("CHECK_NOTHROW(" #__VA_ARGS__ ")", false, __VA_ARGS__)
#define REQUIRE_NOTHROW(...) CS_NOTHROW_IMPL("REQUIRE_NOTHROW(" #__VA_ARGS__ ")", true, __VA_ARGS__)
#define CS_THROWS_IMPL(text, fatal, expr)                                                    \
    do { bool cs_threw = false; try { static_cast<void>(expr); }                              \
         catch (const ::catch_shim::RequireFailed &) { throw; }                               \
         catch (...) { cs_threw = true; }                                                     \
         if (!cs_threw) { ::catch_shim::fail(__FILE__, __LINE__, text " did not throw"); if (fatal) throw ::catch_shim::RequireFailed{}; } } while (0)
#define CHECK_THROWS(...) CS_THROWS_IMPL("CHECK_THROWS(" #__VA_ARGS__ ")", false, (__VA_ARGS__))
#define REQUIRE_THROWS(...) CS_THROWS_IMPL("REQUIRE_THROWS(" #__VA_ARGS__ ")", true, (__VA_ARGS__))
#define CS_THROWS_AS_IMPL(text, fatal, expr, type)                                           \
    do { bool cs_threw = false; try { static_cast<void>(expr); }                              \
         catch (const ::catch_shim::RequireFailed &) { throw; }                               \
         catch (const type &) { cs_threw = true; }                                            \
         catch (...) { ::catch_shim::fail(__FILE__, __LINE__, text " threw another type"); cs_threw = true; } \
         if (!cs_threw) { ::catch_shim::fail(__FILE__, __LINE__, text " did not throw"); if (fatal) throw ::catch_shim::RequireFailed{}; } } while (0)
#define CHECK_THROWS_AS(expr, type) CS_THROWS_AS_IMPL("CHECK_THROWS_AS(" #expr ")", false, expr, type)
#define REQUIRE_THROWS_AS(expr, type) CS_THROWS_AS_IMPL("REQUIRE_THROWS_AS(" #expr ")", true, expr, type)
#define CS_THROWS_WITH_IMPL(text, fatal, expr, matcher)                                      \
    do { bool cs_threw = false; try { static_cast<void>(expr); }                              \
         catch (const ::catch_shim::RequireFailed &) { throw; }                               \
         catch (const std::exception &e) { cs_threw = true;                                   \
             if (!::Catch::Matchers::shim_match(matcher, std::string(e.what()))) { ::catch_shim::fail(__FILE__, __LINE__, std::string(text " message mismatch: ") + e.what()); if (fatal) throw ::catch_shim::RequireFailed{}; } } \
         catch (...) { cs_threw = true; }                                                     \
         if (!cs_threw) { ::catch_shim::fail(__FILE__, __LINE__, text " did not throw"); if (fatal) throw ::catch_shim::RequireFailed{}; } } while (0)
#define CHECK_THROWS_WITH(expr, matcher) CS_THROWS_WITH_IMPL("CHECK_THROWS_WITH(" #expr ")", false, expr, matcher)
#define REQUIRE_THROWS_WITH(expr, matcher) CS_THROWS_WITH_IMPL("REQUIRE_THROWS_WITH(" #expr ")", true, expr, matcher)
#define CHECK_THROWS_MATCHES(expr, type, matcher) CS_THROWS_AS_IMPL("CHECK_THROWS_MATCHES(" #expr ")", false, expr, type)
#define REQUIRE_THROWS_MATCHES(expr, type, matcher) CS_THROWS_AS_IMPL("REQUIRE_THROWS_MATCHES(" #expr ")", true, expr, type)
#define CHECK_THAT(value, matcher) CS_CHECK_IMPL("CHECK_THAT(" #value ")", ::Catch::Matchers::shim_match(matcher, std::string(value)), false)
#define REQUIRE_THAT(value, matcher) CS_CHECK_IMPL("REQUIRE_THAT(" #value ")", ::Catch::Matchers::shim_match(matcher, std::string(value)), true)
#define FAIL(...) do { std::ostringstream cs_o; cs_o << "FAIL: " << __VA_ARGS__; ::catch_shim::fail(__FILE__, __LINE__, cs_o.str()); throw ::catch_shim::RequireFailed{}; } while (0)
#define FAIL_CHECK(...) do { std::ostringstream cs_o; cs_o << "FAIL_CHECK: " << __VA_ARGS__; ::catch_shim::fail(__FILE__, __LINE__, cs_o.str()); } while (0)
#define SUCCEED(...) do { } while (0)
#define WARN(...) do { } while (0)
#define INFO(...) do { } while (0)
#define UNSCOPED_INFO(...) do { } while (0)
#define CAPTURE(...) do { } while (0)
#define SECTION(...) if (::catch_shim::Section cs_section{"section"})
#define DYNAMIC_SECTION(...) if (::catch_shim::Section cs_section{"section"})
#define SKIP(...) do { return; } while (0)

#ifndef CATCH_SHIM_NO_MAIN
#ifdef CATCH_SHIM_MAIN
int main(int argc, char **argv) {
    int failed = 0, passed = 0;
    for (auto &tc : ::catch_shim::registry()) {
        if (argc > 1) { bool sel = false; for (int i = 1; i < argc; ++i) if (std::strstr(tc.name, argv[i])) sel = true; if (!sel) continue; }
        auto &s = ::catch_shim::state();
        s.failures = 0; s.messages.clear(); s.sections_seen = 0; s.section_to_run = 0;
        do {
            s.section_counter = 0; s.depth = 0;
            try { tc.fn(); }
            catch (const ::catch_shim::RequireFailed &) {}
            catch (const std::exception &e) { ::catch_shim::fail("<test>", 0, std::string("unexpected exception: ") + e.what()); }
            catch (...) { ::catch_shim::fail("<test>", 0, "unexpected unknown exception"); }
            ++s.section_to_run;
        } while (s.section_to_run < s.sections_seen);
        if (s.failures) { ++failed; std::printf("TEST FAIL %s\n", tc.name); for (auto &m : s.messages) { std::string one = m.substr(0, 400); for (auto &c : one) if (c == '\n') c = ' '; std::printf("    %s\n", one.c_str()); } }
        else { ++passed; std::printf("TEST PASS %s\n", tc.name); }
        std::fflush(stdout);
    }
    std::printf("SUMMARY passed=%d failed=%d\n", passed, failed);
    return failed ? 1 : 0;
}
#endif
#endif
