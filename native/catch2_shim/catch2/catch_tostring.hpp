#pragma once
#include <catch2/catch_test_macros.hpp>
