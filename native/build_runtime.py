#!/usr/bin/env python3
"""Build the runtime, wiring and stdlib translation units of a hgraph tree into one static
archive (DESIGN.md appendix A.6).  Used only for history-shaped native replays, the bounded
stand-ins that need a running graph, and demonstrations of seeded changes -- never on the
passing path of a quick check.

  build_runtime.py <repo> <outdir>            -> <outdir>/libhgraph_rt.a  (objects cached by content hash)
  build_runtime.py <repo> <outdir> --probe p.cpp -o p   compile+link a probe against it
"""
import hashlib
import os
import re
import subprocess
import sys
from concurrent.futures import ThreadPoolExecutor

SKIP = {"hgraph/types/temporal.cpp", "hgraph/types/time_zone_provider.cpp", "hgraph/types/value/json_codec.cpp",
        "hgraph/lib/std/operators/json_impl.cpp",
        "hgraph/python/bridge_state.cpp", "hgraph/python/impl/ts_data_conversion.cpp"}
WHEEL_INC = "/venv/lib/python3.12/site-packages/include"
ARROW = "/venv/lib/python3.12/site-packages/pyarrow"
SIMDJSON = "/root/miniconda/pkgs/simdjson-3.10.1-hdb19cb5_0"   # only validate_utf8 is used (conversion_impl.cpp)
if not os.path.exists(os.path.join(SIMDJSON, "include/simdjson.h")):
    SKIP.add("hgraph/lib/std/operators/conversion_impl.cpp")
    SIMDJSON = None


def sources(repo):
    txt = open(os.path.join(repo, "src/CMakeLists.txt")).read()
    out = []
    for m in re.finditer(r"set\((HGRAPH_(?:RUNTIME|WIRING|STDLIB)_SOURCES)\s+(.*?)\)", txt, re.S):
        for f in m.group(2).split():
            if f.endswith(".cpp") and f not in SKIP:
                out.append(f)
    return list(dict.fromkeys(out))


def flags(repo, gen):
    return ["-std=c++23", "-O0", "-g0", "-w", "-DFMT_HEADER_ONLY", "-DHGRAPH_STATIC_DEFINE",
            "-DHGRAPH_TIME_ZONE_BACKEND_STD=1", "-I" + gen, "-I" + os.path.join(repo, "include"),
            "-I" + os.path.join(repo, "include/third_party"), "-I" + os.path.join(repo, "src"),
            "-I" + WHEEL_INC, "-I" + os.path.join(ARROW, "include")] + \
        (["-I" + os.path.join(SIMDJSON, "include")] if SIMDJSON else [])


def headers_hash(repo):
    h = hashlib.sha256()
    for top in ("include/hgraph", "src/hgraph"):
        for d, dirs, files in os.walk(os.path.join(repo, top)):
            dirs.sort()
            for f in sorted(files):
                if f.endswith((".h", ".hpp", ".inl", ".in")):
                    p = os.path.join(d, f)
                    h.update(os.path.relpath(p, repo).encode())
                    h.update(open(p, "rb").read())
    return h.hexdigest()[:16]


def main():
    repo, out = sys.argv[1], sys.argv[2]
    os.makedirs(out, exist_ok=True)
    gen = os.path.join(out, "gen")
    os.makedirs(os.path.join(gen, "hgraph"), exist_ok=True)
    v = re.sub(r"@[A-Za-z_0-9]*@", "0", open(os.path.join(repo, "include/hgraph/version.h.in")).read())
    vp = os.path.join(gen, "hgraph/version.h")
    if not os.path.exists(vp) or open(vp).read() != v:
        open(vp, "w").write(v)
    fl = flags(repo, gen)
    if "--probe" in sys.argv:
        probe = sys.argv[sys.argv.index("--probe") + 1]
        exe = sys.argv[sys.argv.index("-o") + 1]
        return link_probe(repo, out, fl, probe, exe)
    hh = headers_hash(repo)
    objdir = os.path.join(out, "obj")
    os.makedirs(objdir, exist_ok=True)
    srcs = sources(repo)
    jobs = []
    objs = []
    for s in srcs:
        p = os.path.join(repo, "src", s)
        key = hashlib.sha256((hh + s).encode() + open(p, "rb").read()).hexdigest()[:20]
        o = os.path.join(objdir, s.replace("/", "__")[:-4] + "." + key + ".o")
        objs.append(o)
        if not os.path.exists(o):
            jobs.append((p, o))

    def cc(job):
        p, o = job
        r = subprocess.run(["g++"] + fl + ["-c", p, "-o", o + ".tmp"], capture_output=True, text=True)
        if r.returncode != 0:
            return (p, r.stderr[-3000:])
        os.replace(o + ".tmp", o)
        return None

    with ThreadPoolExecutor(max_workers=int(os.environ.get("JOBS", "16"))) as ex:
        errs = [e for e in ex.map(cc, jobs) if e]
    for p, e in errs:
        print("COMPILE ERROR", p, "\n", e)
    if errs:
        return 2
    # drop stale objects
    keep = set(objs)
    for f in os.listdir(objdir):
        fp = os.path.join(objdir, f)
        if fp not in keep:
            os.unlink(fp)
    lib = os.path.join(out, "libhgraph_rt.a")
    if os.path.exists(lib):
        os.unlink(lib)
    subprocess.check_call(["ar", "rcs", lib] + objs)
    print("built %s (%d objects, %d compiled now)" % (lib, len(objs), len(jobs)))
    return 0


def link_probe(repo, out, fl, probe, exe):
    lib = os.path.join(out, "libhgraph_rt.a")
    po = exe + ".o"
    extra = os.environ.get("PROBE_FLAGS", "").split()
    r = subprocess.run(["g++"] + fl + extra + ["-c", probe, "-o", po], capture_output=True, text=True)
    if r.returncode != 0:
        print(r.stderr[-6000:])
        return 2
    link = ["g++", po, lib, "-L" + ARROW, "-l:libarrow.so.2500", "-l:libarrow_compute.so.2500",
            "-l:libarrow_acero.so.2500", "-Wl,-rpath," + ARROW] + \
           (["-L" + os.path.join(SIMDJSON, "lib"), "-l:libsimdjson.so.23", "-Wl,-rpath," + os.path.join(SIMDJSON, "lib")]
            if SIMDJSON else []) + ["-lpthread", "-o", exe]
    r = subprocess.run(link + ["-Wl,--no-demangle"], capture_output=True, text=True)
    if r.returncode != 0:
        syms = sorted(set(re.findall(r"undefined reference to `([^']+)'", r.stderr)))
        if not syms:
            print(r.stderr[-6000:])
            return 2
        stub = exe + ".stubs.c"
        with open(stub, "w") as fh:
            fh.write("#include <stdio.h>\n#include <stdlib.h>\n")
            for i, s in enumerate(syms):
                if re.match(r"_ZN6hgraph6stdlib\d+register_[a-z_]*operatorsEv$", s):
                    # operator groups of translation units that do not compile here: registering nothing
                    fh.write('void stub_%d(void) __asm__("%s");\nvoid stub_%d(void){}\n' % (i, s, i))
                    continue
                fh.write('void stub_%d(void) __asm__("%s");\nvoid stub_%d(void){fprintf(stderr,"called stub %s\\n");abort();}\n'
                         % (i, s, i, s))
        subprocess.check_call(["gcc", "-c", stub, "-o", stub + ".o"])
        r = subprocess.run(link[:2] + [stub + ".o"] + link[2:], capture_output=True, text=True)
        if r.returncode != 0:
            print(r.stderr[-6000:])
            return 2
    return 0


if __name__ == "__main__":
    sys.exit(main())
